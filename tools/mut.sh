#!/bin/bash
# tools/mut.sh <name> <file> <sed-expr> <check ids...>: apply a one-line mutation to a scratch copy of
# /repo (never to /repo itself), make sure it compiles and the repository's own tests still pass, run
# the quick checks against the copy, print one result line, remove the copy.
export GOFLAGS=-mod=mod GOPROXY=off GOSUMDB=off GOTOOLCHAIN=local
NAME=$1; FILE=$2; EXPR=$3; shift 3
DIR=/tmp/mutrepo-$NAME-$$
rsync -a --exclude .git /repo/ $DIR/
BEFORE=$(md5sum $DIR/$FILE | cut -c1-32)
sed -i "$EXPR" $DIR/$FILE
AFTER=$(md5sum $DIR/$FILE | cut -c1-32)
if [ "$BEFORE" = "$AFTER" ]; then echo "MUT $NAME: sed did not change $FILE"; rm -rf $DIR; exit 2; fi
if ! (cd $DIR && go build ./... 2>/dev/null); then echo "MUT $NAME: does not compile"; rm -rf $DIR; exit 2; fi
SUITE=$(cd $DIR && go test -vet=off -count=1 ./... 2>&1 | grep -c "^ok")
RES=""
for c in "$@"; do
  OUT=$(cd /verif && VERIF_REPO=$DIR ./check $c 2>&1); RC=$?
  RES="$RES $c=$( [ $RC = 1 ] && echo KILLED || ( [ $RC = 0 ] && echo survived || echo inconclusive ) )"
  rm -rf /verif/.run/alt/replays/$c
done
echo "MUT $NAME ($FILE: $EXPR) suite_ok_pkgs=$SUITE ::$RES"
rm -rf $DIR

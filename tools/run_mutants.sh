#!/bin/bash
# runs every line of tools/mutants.txt (or the names given as arguments) through tools/mut.sh, 3 at a time
cd /verif
run_one() {
  IFS='|' read -r name file expr checks <<< "$1"
  tools/mut.sh "$name" "$file" "$expr" $checks
}
export -f run_one
grep -v '^#' tools/mutants.txt | { if [ $# -gt 0 ]; then grep -E "^($(echo "$@" | tr ' ' '|'))\|"; else cat; fi; } | xargs -P 3 -d '\n' -I{} bash -c 'run_one "$@"' _ {} 2>&1 | grep "^MUT"

#!/bin/bash
# runs every line of tools/mutants.txt through tools/mut.sh, 3 at a time
cd /verif
grep -v '^#' tools/mutants.txt | while IFS='|' read name file expr checks; do
  echo "$name|$file|$expr|$checks"
done | xargs -P 3 -d '\n' -I{} bash -c 'IFS="|" read name file expr checks <<< "{}"; tools/mut.sh "$name" "$file" "$expr" $checks' 2>&1 | grep "^MUT"

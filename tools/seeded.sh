#!/bin/bash
# tools/seeded.sh <ID> [check ids...]: confirm a sub-agent's seeded change in its scratch worktree,
# store it under /verif/seeded/<ID>/, run the quick checks against it applied to /repo, revert.
export GOFLAGS=-mod=mod GOPROXY=off GOSUMDB=off GOTOOLCHAIN=local
ID=$1; shift
WT=/tmp/wt-$ID
CHECKS=${@:-$ID}
cd $WT || exit 2
DEMO=$(git status --short | grep '^??' | grep '_test.go' | awk '{print $2}' | head -1)
[ -z "$DEMO" ] && { echo "no demo test file"; exit 2; }
PKG=./$(dirname $DEMO)
echo "== $ID demo=$DEMO pkg=$PKG"
git diff -- . ':!*_test.go' > /tmp/$ID.patch
[ -s /tmp/$ID.patch ] || cp MUTANT.diff /tmp/$ID.patch
# (a) existing suite with the change (demo moved aside)
mv $DEMO /tmp/$ID.demo.go
A=$(go build ./... 2>&1 && go test -vet=off -count=1 ./... 2>&1 | grep -c "^ok")
mv /tmp/$ID.demo.go $DEMO
# (b) demo with the change
B=$(go test -vet=off -count=1 $PKG 2>&1 | tail -1)
# (c) demo without the change
git apply -R /tmp/$ID.patch
C=$(go test -vet=off -count=1 $PKG 2>&1 | tail -1)
git apply /tmp/$ID.patch
echo "suite_ok_pkgs=$A | with change: $B | without: $C"
mkdir -p /verif/seeded/$ID
cp /tmp/$ID.patch /verif/seeded/$ID/patch.diff
cp $DEMO /verif/seeded/$ID/$(basename $DEMO).txt
cp META.txt /verif/seeded/$ID/META.txt 2>/dev/null
# run my checks against it
cd /verif
[ -n "$(git -C /repo status --short)" ] && { echo "/repo not clean"; exit 2; }
git -C /repo apply /tmp/$ID.patch || { echo "patch does not apply to /repo"; exit 2; }
for c in $CHECKS; do
  OUT=$(./check $c 2>&1); RC=$?
  echo "check $c rc=$RC :: $(echo "$OUT" | grep -E 'VIOLATION|^OK|INCONCLUSIVE' | head -2 | tr '\n' ' ')"
  echo "$OUT" | grep -v "draw" | grep -E "failed after|panicked|\] .*(expected|want|but|reported)" | head -3 | cut -c1-400
done
git -C /repo checkout -- .
git -C /repo status --short | head -3

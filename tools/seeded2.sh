#!/bin/bash
# tools/seeded2.sh <worktree> <seeded-name> <check ids...>: like seeded.sh but evaluates against a
# scratch copy of /repo (VERIF_REPO) so that /repo itself is never touched.
export GOFLAGS=-mod=mod GOPROXY=off GOSUMDB=off GOTOOLCHAIN=local
WT=$1; NAME=$2; shift 2
cd $WT || exit 2
DEMO=$(git status --short | grep '^??' | grep '_test.go' | awk '{print $2}' | head -1)
[ -z "$DEMO" ] && { echo "no demo test file"; exit 2; }
PKG=./$(dirname $DEMO)
git diff -- . ':!*_test.go' > /tmp/$NAME.patch
[ -s /tmp/$NAME.patch ] || cp MUTANT.diff /tmp/$NAME.patch
mv $DEMO /tmp/$NAME.demo.go
A=$(go build ./... 2>&1 && go test -vet=off -count=1 ./... 2>&1 | grep -c "^ok")
mv /tmp/$NAME.demo.go $DEMO
B=$(go test -vet=off -count=1 $PKG 2>&1 | tail -1)
git apply -R /tmp/$NAME.patch
C=$(go test -vet=off -count=1 $PKG 2>&1 | tail -1)
git apply /tmp/$NAME.patch
echo "== $NAME demo=$DEMO :: suite_ok_pkgs=$A | with change: $B | without: $C"
mkdir -p /verif/seeded/$NAME
cp /tmp/$NAME.patch /verif/seeded/$NAME/patch.diff
cp $DEMO /verif/seeded/$NAME/$(basename $DEMO).txt
cp META.txt /verif/seeded/$NAME/META.txt 2>/dev/null
DIR=/tmp/mutrepo-$NAME
rm -rf $DIR; rsync -a --exclude .git /repo/ $DIR/
(cd $DIR && patch -p1 -s < /tmp/$NAME.patch) || { echo "patch does not apply"; exit 2; }
cd /verif
for c in "$@"; do
  OUT=$(VERIF_REPO=$DIR ./check $c 2>&1); RC=$?
  echo "check $c rc=$RC :: $(echo "$OUT" | grep -E 'VIOLATION|^OK|INCONCLUSIVE' | head -2 | tr '\n' ' ' | cut -c1-250)"
  echo "$OUT" | grep -v "draw" | grep -E "failed after|panicked" | head -2 | cut -c1-400
  rm -rf /verif/.run/alt/replays/$c
done
rm -rf $DIR /tmp/$NAME.patch

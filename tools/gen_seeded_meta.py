#!/usr/bin/env python3
"""Writes seeded/<name>/meta.json for every seeded change from META.txt (the sub-agent's own
description) and result.json (tools/seeded_matrix.py); existing hand-written fields are kept."""
import json, os, glob
ROOT = os.path.dirname(os.path.dirname(os.path.abspath(__file__)))
for d in sorted(glob.glob(os.path.join(ROOT, "seeded", "*"))):
    name = os.path.basename(d)
    mp = os.path.join(d, "meta.json")
    meta = json.load(open(mp)) if os.path.exists(mp) else {}
    txt = open(os.path.join(d, "META.txt")).read() if os.path.exists(os.path.join(d, "META.txt")) else ""
    demo = [f for f in os.listdir(d) if f.endswith("_test.go.txt")]
    meta.setdefault("property", name[:3])
    meta.setdefault("origin", "sub-agent given only the property text and a scratch worktree of /repo HEAD (with the fix: commits); second wave asked for a different clause / region than the first")
    meta.setdefault("needs_to_manifest", txt)
    meta.setdefault("demonstration", demo[0] if demo else "")
    meta.setdefault("confirmed", "tools/seeded2.sh: (a) existing suite green with the change, (b) demonstration fails with the change, (c) passes without it; check run against a scratch copy of /repo with the patch applied (VERIF_REPO), /repo itself untouched")
    rp = os.path.join(d, "result.json")
    if os.path.exists(rp) and not meta.get("neutralised"):
        r = json.load(open(rp))
        legs = sorted({l for run in r.get("runs", []) for l in run["legs"]})
        meta["caught"] = r.get("caught")
        meta["caught_by"] = " + ".join(legs) if legs else "-"
        meta["last_evaluation"] = {k: r.get(k) for k in ("date", "repo_commit", "verif_commit")}
        meta["runs"] = [{k: run[k] for k in ("check", "tier", "seed", "exit", "legs", "wall_s")} for run in r.get("runs", [])]
    json.dump(meta, open(mp, "w"), indent=1)  # "note" (history of the check) is hand-written and kept
    print(name, meta.get("caught"), meta.get("caught_by"))

#!/usr/bin/env python3
"""Regenerates MANIFEST.json from checks_table.py (claimed checks) and properties.jsonl."""
import json, os, sys
ROOT = os.path.dirname(os.path.dirname(os.path.abspath(__file__)))
sys.path.insert(0, ROOT)
from checks_table import PROPS, NOT_APPLICABLE, HOOK_COMMITS

all_ids = [json.loads(l)["id"] for l in open(os.path.join(ROOT, "properties.jsonl")) if l.strip()]
checks = []
for pid in all_ids:
    if pid not in PROPS:
        continue
    p = PROPS[pid]
    checks.append({
        "property_id": pid,
        "quick_cmd": "./check %s --tier quick" % pid,
        "thorough_cmd": "./check %s --tier thorough" % pid,
        "evidence_file": "/verif/evidence/%s.json" % pid,
        "replay_cmd_template": "./check %s --replay {path}" % pid,
        "engine": "harness/" + p["pkg"],
        "level_claimed": {"category": p["level"], "text": p["level_text"], "design_ref": p.get("design_ref", "DESIGN.md section 4/" + pid)},
        "level_note": p["level_note"],
        "technique": p["technique"],
    })
na = [{"property_id": pid, "reason": NOT_APPLICABLE.get(pid, "check not built yet in this commit (work in progress; see DESIGN.md section 4)")}
      for pid in all_ids if pid not in PROPS]
engines = {}
for pid, p in PROPS.items():
    e = engines.setdefault(p["pkg"], {"name": p["pkg"], "path": "harness/" + p["pkg"], "serves_properties": [],
                                      "kind_free_text": "Go test package: pgregory.net/rapid v1.3.0 property tests (stateful t.Repeat machines and generators), hand-written regression replays, native go fuzz targets"})
    e["serves_properties"].append(pid)
manifest = {
    "version": 1,
    "setup_cmd": "./check --setup",
    "hooks": {
        "guard": "verif",
        "enable": "go test -tags verif (harness module replaces github.com/tokenized/bitcoin_reader => /repo)",
        "baseline_off_cmd": "cd /repo && go test -json -vet=off -count=1 -timeout 25m ./...",
        "source_commits": HOOK_COMMITS,
        "add_only": True,
    },
    "engines": sorted(engines.values(), key=lambda e: e["name"]),
    "checks": checks,
    "not_applicable": na,
    "notes": "Single driver ./check; property-based testing (rapid) and native Go fuzzing only. Known findings: known_findings.json. Exit 2 = inconclusive.",
}
json.dump(manifest, open(os.path.join(ROOT, "MANIFEST.json"), "w"), indent=1)
print("claimed:", [c["property_id"] for c in checks], "not claimed:", [n["property_id"] for n in na])

#!/usr/bin/env python3
"""tools/seeded_matrix.py [name ...] [--tier quick|thorough] [--seeds 1,2,3]

Evaluates the seeded changes kept under /verif/seeded/<name>/patch.diff against the checks WITHOUT
touching /repo: each patch is applied to a scratch copy of /repo's working tree under /tmp (removed
afterwards) and the check of the property the change breaks (first three characters of the name,
plus any in seeded/<name>/also.txt) is run through VERIF_REPO. Per change it records
seeded/<name>/result.json: for every seed tried, the exit code and the legs (test names) that
reported a violation. A change counts as caught when at least one run exits 1 with a VIOLATION line.
"""
import json
import os
import re
import shutil
import subprocess
import sys
import time

ROOT = os.path.dirname(os.path.dirname(os.path.abspath(__file__)))
SEEDED = os.path.join(ROOT, "seeded")


def sh(cmd, **kw):
    return subprocess.run(cmd, shell=True, stdout=subprocess.PIPE, stderr=subprocess.STDOUT, text=True, **kw)


def evaluate(name, tier, seeds):
    patch = os.path.join(SEEDED, name, "patch.diff")
    scratch = "/tmp/seedrepo-%s-%d" % (name, os.getpid())
    shutil.rmtree(scratch, ignore_errors=True)
    sh("rsync -a --exclude .git /repo/ %s/" % scratch)
    p = sh("patch -p1 -s < %s" % patch, cwd=scratch)
    if p.returncode != 0:
        shutil.rmtree(scratch, ignore_errors=True)
        return {"name": name, "error": "patch does not apply to the current tree: " + p.stdout[-300:]}
    checks = [name[:3]]
    also = os.path.join(SEEDED, name, "also.txt")
    if os.path.exists(also):
        checks += open(also).read().split()
    runs = []
    caught = False
    for c in checks:
        for seed in seeds:
            env = dict(os.environ, VERIF_REPO=scratch, VERIF_SEED=str(seed))
            t0 = time.time()
            r = subprocess.run([os.path.join(ROOT, "check"), c, "--tier", tier], env=env, stdout=subprocess.PIPE,
                               stderr=subprocess.STDOUT, text=True, errors="replace")
            legs = sorted(set(re.findall(r"replay=\S*/(Test\w+|Fuzz\w+|regr\.\w+)", r.stdout)))
            msg = ""
            m = re.search(r"\[rapid\] failed after[^\n]*\n?", r.stdout)
            if m:
                msg = m.group(0).strip()[:300]
            runs.append({"check": c, "tier": tier, "seed": seed, "exit": r.returncode, "legs": legs,
                         "wall_s": round(time.time() - t0, 1), "first_failure": msg})
            if r.returncode == 1 and legs:
                caught = True
            shutil.rmtree(os.path.join(ROOT, ".run", "alt", "replays", c), ignore_errors=True)
            if caught:
                break
        if caught:
            break
    shutil.rmtree(scratch, ignore_errors=True)
    head = sh("git -C /repo rev-parse --short HEAD").stdout.strip()
    vhead = sh("git -C %s rev-parse --short HEAD" % ROOT).stdout.strip()
    return {"name": name, "caught": caught, "runs": runs, "repo_commit": head, "verif_commit": vhead,
            "date": time.strftime("%Y-%m-%d %H:%M")}


def main():
    args = sys.argv[1:]
    tier, seeds, names = "quick", [1, 2, 3], []
    while args:
        a = args.pop(0)
        if a == "--tier":
            tier = args.pop(0)
        elif a == "--seeds":
            seeds = [int(x) for x in args.pop(0).split(",")]
        else:
            names.append(a)
    if not names:
        names = sorted(d for d in os.listdir(SEEDED) if os.path.exists(os.path.join(SEEDED, d, "patch.diff")))
    for n in names:
        res = evaluate(n, tier, seeds)
        with open(os.path.join(SEEDED, n, "result.json"), "w") as f:
            json.dump(res, f, indent=1)
        if "error" in res:
            print("%-6s ERROR %s" % (n, res["error"]), flush=True)
            continue
        last = res["runs"][-1]
        print("%-6s %s  (%s seed=%d %s, %d run(s))" % (n, "CAUGHT" if res["caught"] else "MISSED", last["check"],
              last["seed"], ",".join(last["legs"]) or "-", len(res["runs"])), flush=True)


if __name__ == "__main__":
    main()

package chain

import (
	"fmt"
	"testing"

	"verifharness/internal/evid"
	"verifharness/internal/fix"
	"verifharness/internal/memstore"
	"verifharness/internal/model"
	"verifharness/internal/vt"

	"github.com/pkg/errors"
	"github.com/tokenized/bitcoin_reader/headers"
	"github.com/tokenized/pkg/bitcoin"
	"pgregory.net/rapid"
)

func TestMain(m *testing.M) { vt.Main(m) }

func class(err error) string {
	switch errors.Cause(err) {
	case nil:
		return "accepted"
	case headers.ErrWrongChain:
		return "wrong-chain"
	case headers.ErrNotEnoughWork, headers.ErrInvalidTarget:
		return "bad-work"
	case headers.ErrUnknownHeader:
		return "unknown"
	case headers.ErrBeyondMaxBranchDepth:
		return "depth"
	}
	return "other:" + err.Error()
}

func h32(s string) bitcoin.Hash32 {
	h, err := bitcoin.NewHash32FromStr(s)
	if err != nil {
		panic(err)
	}
	return *h
}

const ruleReal = "real mainnet window below the split: repository mocked at height 556767-k (k<=60) and filled with the real headers up to 556766, split protection ON (production), difficulty checks drawn on/off; optional synthetic side branch forking j<=k headers below and reaching height 556766; then a drawn sequence of offers at height 556767: arbitrary synthetic headers on the main chain and on the side branch, the real BCH split header, the real BSV split header (MainNetRequiredHeader), single-field mutations of the BSV header, and the BCH/BSV headers offered to a repository that does not hold their parent; oracle: nothing but the BSV split header is ever accepted at 556767 on any branch (synthetic => wrong-chain, or bad-work when difficulty checks are on), BCH => wrong-chain wherever offered, BSV => accepted, and VerifyHeader returns nil exactly for the BSV split hash; non-trivial = a non-BSV header offered at 556767 on a side branch, or BCH offered without its parent; distinct = (k, fork depth, difficulty flag, offer list)"

func TestProp_C03_split(t *testing.T) {
	col := evid.For("C03", "split", ruleReal)
	fx := fix.Fixtures()[0]
	bsvHash, bchHash := h32(fix.BSVSplitHash), h32(fix.BCHSplitHash)
	if !fx.Headers[767].BlockHash().Equal(&bsvHash) {
		t.Fatalf("fixture header 767 is not the BSV split header")
	}
	rapid.Check(t, func(t *rapid.T) {
		kc := col.NewCase()
		ctx := vt.Ctx()
		k := rapid.IntRange(1, 60).Draw(t, "k")
		difficulty := rapid.Bool().Draw(t, "difficultyOn")
		if difficulty {
			k += 150 // the difficulty adjustment needs 147 real predecessors
		}
		repo := fix.NewRepo(t, fx, 767-k, k-1, false) // tip = real 556766
		if repo.Height() != 556766 {
			t.Fatalf("setup: height %d", repo.Height())
		}
		// optional side branch reaching 556766
		var sideTip *model.RawHeader
		j := 0
		if k >= 2 && rapid.Bool().Draw(t, "sideBranch") {
			j = rapid.IntRange(1, min(k-1, 12)).Draw(t, "forkDepth")
			parent := fix.FromWire(fx.Headers[766-j])
			prev, ts := parent.Hash(), parent.Timestamp
			for i := 0; i < j; i++ {
				raw := model.RawHeader{Version: 1, Prev: prev, Timestamp: ts + 600, Bits: 0x1d00ffff, Nonce: uint32(i)}
				raw.Merkle[0], raw.Merkle[1] = 0x51, byte(i)
				if err := repo.ProcessHeader(ctx, fix.ToWire(&raw)); err != nil {
					t.Fatalf("side branch header: %s", err)
				}
				prev, ts = raw.Hash(), raw.Timestamp
				r := raw
				sideTip = &r
			}
		}
		if difficulty {
			repo.EnableDifficulty()
		}
		real766 := fix.FromWire(fx.Headers[766])
		bsv := fx.Headers[767]
		bch := fix.BCHSplitHeader(*fx.Headers[766].BlockHash())
		if !bch.BlockHash().Equal(&bchHash) {
			t.Fatalf("BCH header hash mismatch")
		}
		nOffers := rapid.IntRange(1, 8).Draw(t, "offers")
		accepted767 := false
		var offers []string
		nontrivial := false
		for i := 0; i < nOffers; i++ {
			kind := rapid.SampledFrom([]string{"synthetic-main", "synthetic-main", "synthetic-side", "synthetic-side", "bch", "bsv", "bsv-mutated", "bch-orphan"}).Draw(t, "offer")
			if kind == "synthetic-side" && sideTip == nil {
				kind = "synthetic-main"
			}
			offers = append(offers, kind)
			switch kind {
			case "synthetic-main", "synthetic-side":
				p := real766
				if kind == "synthetic-side" {
					p = *sideTip
					nontrivial = true
				}
				raw := model.RawHeader{Version: rapid.Int32().Draw(t, "ver"), Prev: p.Hash(), Timestamp: p.Timestamp + uint32(rapid.IntRange(1, 7200).Draw(t, "dt")),
					Bits: rapid.SampledFrom([]uint32{0x1d00ffff, 0x18021fdb, 0x207fffff, 0x1802f4c5}).Draw(t, "bits"), Nonce: rapid.Uint32().Draw(t, "nonce")}
				raw.Merkle[0] = byte(i)
				err := repo.ProcessHeader(ctx, fix.ToWire(&raw))
				c := class(err)
				if err == nil {
					t.Fatalf("synthetic header accepted at height 556767 on %s (difficulty=%v)", kind, difficulty)
				}
				if c != "wrong-chain" && !(difficulty && c == "bad-work") {
					t.Fatalf("synthetic header at 556767 on %s refused as %q, want wrong-chain", kind, c)
				}
			case "bch":
				err := repo.ProcessHeader(ctx, bch)
				if class(err) != "wrong-chain" {
					t.Fatalf("BCH split header answered %q (%v), want wrong-chain", class(err), err)
				}
			case "bsv":
				err := repo.ProcessHeader(ctx, bsv)
				if err != nil {
					t.Fatalf("BSV split header refused: %s (difficulty=%v, side branch depth %d)", err, difficulty, j)
				}
				accepted767 = true
			case "bsv-mutated":
				m := fix.FromWire(bsv)
				switch rapid.IntRange(0, 4).Draw(t, "field") {
				case 0:
					m.Version ^= 1
				case 1:
					m.Merkle[9] ^= 1
				case 2:
					m.Timestamp++
				case 3:
					m.Nonce++
				case 4:
					m.Bits++
				}
				err := repo.ProcessHeader(ctx, fix.ToWire(&m))
				if err == nil {
					t.Fatalf("mutated BSV split header accepted at 556767")
				}
				if verr := repo.VerifyHeader(ctx, fix.ToWire(&m)); verr == nil {
					t.Fatalf("VerifyHeader accepted a mutated BSV split header")
				}
			case "bch-orphan":
				// a repository that does not hold 556766
				other := fix.NewRepo(t, fx, 500, 155, difficulty)
				err := other.ProcessHeader(ctx, bch)
				if class(err) != "wrong-chain" {
					t.Fatalf("BCH split header without its parent answered %q, want wrong-chain", class(err))
				}
				nontrivial = true
			}
			// the tip is either real 556766, the side tip or the BSV header
			if hgt := repo.Height(); hgt == 556767 {
				if last := repo.LastHash(); !last.Equal(&bsvHash) {
					t.Fatalf("height 556767 reached with tip %s, not the BSV split header", last)
				}
			} else if hgt != 556766 {
				t.Fatalf("unexpected height %d", hgt)
			}
			if hsh, err := repo.Hash(ctx, 556767); err == nil && !hsh.Equal(&bsvHash) {
				t.Fatalf("Hash(556767) = %s, not the BSV split header", hsh)
			}
		}
		_ = accepted767
		// VerifyHeader table
		if err := repo.VerifyHeader(ctx, bsv); err != nil {
			t.Fatalf("VerifyHeader(BSV split header) = %s", err)
		}
		if err := repo.VerifyHeader(ctx, bch); class(err) != "wrong-chain" {
			t.Fatalf("VerifyHeader(BCH split header) = %v", err)
		}
		idx := rapid.IntRange(0, len(fx.Headers)-1).Draw(t, "otherReal")
		if idx != 767 {
			if err := repo.VerifyHeader(ctx, fx.Headers[idx]); err == nil {
				t.Fatalf("VerifyHeader accepted real header %d", 556000+idx)
			}
		}
		kc.Op("k=%d fork=%d diff=%v offers=%v", k, j, difficulty, offers)
		kc.NonTrivial = nontrivial
		kc.Done()
	})
}

func min(a, b int) int {
	if a < b {
		return a
	}
	return b
}

const ruleSynth = "synthetic split tables installed at small heights (verif hook VerifSetSplits; the only way to drive a BTC-style entry, whose 80-byte preimage is not available offline): a generated chain of s headers, a foreign split {before = header s, after = child A, height s+1} listed in the split table (sorted highest first) and a required split {before = header s, after = child B}; optional side branch forking below s and reaching height s; offers in drawn order: A, B, other children of s, children of the side-branch tip at height s+1, A offered to a repository that does not know its parent; oracle: A => wrong-chain wherever it is offered, every other header at height s+1 except B => wrong-chain on every branch, B => accepted and becomes the tip, descendants of B are accepted; VerifyHeader nil exactly for B, wrong-chain for A; the literal mainnet constants are compared with the documented hashes; non-trivial = an offer on the side branch at the split height, or A offered without its parent; distinct = (s, fork depth, offer list)"

func TestProp_C03_synthetic(t *testing.T) {
	col := evid.For("C03", "synthetic", ruleSynth)
	rapid.Check(t, func(t *rapid.T) {
		kc := col.NewCase()
		ctx := vt.Ctx()
		repo := headers.NewRepository(headers.DefaultConfig(), memstore.New())
		repo.DisableDifficulty()
		repo.InitializeWithGenesis()
		s := rapid.IntRange(1, 12).Draw(t, "s")
		gen := model.RawHeader{Version: 1, Merkle: model.Hash(h32("4a5e1e4baab89f3a32518a88c31bc87f618f76673e2cc77ab2127b7afdeda33b")), Timestamp: 1231006505, Bits: 0x1d00ffff, Nonce: 2083236893}
		chain := []model.RawHeader{gen}
		mk := func(p model.RawHeader, tag byte, n uint32) model.RawHeader {
			raw := model.RawHeader{Version: 1, Prev: p.Hash(), Timestamp: p.Timestamp + 600, Bits: 0x1d00ffff, Nonce: n}
			raw.Merkle[0], raw.Merkle[1] = tag, byte(n)
			return raw
		}
		A := mk(gen, 0, 0) // placeholders
		for i := 1; i <= s; i++ {
			chain = append(chain, mk(chain[i-1], 1, uint32(i)))
		}
		A = mk(chain[s], 0xA, 1)
		B := mk(chain[s], 0xB, 2)
		// install the tables before anything is submitted at those heights
		foreign := headers.Splits{{Name: "FOREIGN", BeforeHash: bitcoin.Hash32(chain[s].Hash()), AfterHash: bitcoin.Hash32(A.Hash()), Height: s + 1}}
		// as on mainnet (BTC at 478559 below BCH/BSV at 556767): optionally a second, EARLIER foreign
		// split whose "after" header E forks off our chain at height e
		e := -1
		var E model.RawHeader
		if s >= 2 && rapid.Bool().Draw(t, "earlierSplit") {
			e = rapid.IntRange(0, s-2).Draw(t, "earlierAt")
			E = mk(chain[e], 0xEE, 7)
			foreign = append(foreign, headers.Split{Name: "EARLIER", BeforeHash: bitcoin.Hash32(chain[e].Hash()), AfterHash: bitcoin.Hash32(E.Hash()), Height: e + 1})
		}
		required := &headers.Split{Name: "OURS", BeforeHash: bitcoin.Hash32(chain[s].Hash()), AfterHash: bitcoin.Hash32(B.Hash()), Height: s + 1}
		repo.VerifSetSplits(foreign, required)
		earlyOffer := e >= 0 && rapid.Bool().Draw(t, "offerEarlierAsExtension")
		for i := 1; i <= s; i++ {
			if earlyOffer && i == e+1 {
				// offered while its parent is still the tip: an extension, not a new branch
				if c := class(repo.ProcessHeader(ctx, fix.ToWire(&E))); c != "wrong-chain" {
					t.Fatalf("earlier foreign split header (height %d, below the later split at %d) offered as an extension answered %q, want wrong-chain", e+1, s+1, c)
				}
			}
			if err := repo.ProcessHeader(ctx, fix.ToWire(&chain[i])); err != nil {
				t.Fatalf("chain header %d: %s", i, err)
			}
		}
		if e >= 0 {
			if c := class(repo.ProcessHeader(ctx, fix.ToWire(&E))); c != "wrong-chain" {
				t.Fatalf("earlier foreign split header (height %d, below the later split at %d) offered as a new branch answered %q, want wrong-chain", e+1, s+1, c)
			}
			if c := class(repo.VerifyHeader(ctx, fix.ToWire(&E))); c != "wrong-chain" {
				t.Fatalf("VerifyHeader(earlier foreign split header) = %q", c)
			}
		}
		var sideTip *model.RawHeader
		j := 0
		if s >= 2 && rapid.Bool().Draw(t, "side") {
			j = rapid.IntRange(1, s-1).Draw(t, "forkDepth")
			p := chain[s-j]
			for i := 0; i < j; i++ {
				raw := mk(p, 0x5, uint32(100+i))
				if err := repo.ProcessHeader(ctx, fix.ToWire(&raw)); err != nil {
					t.Fatalf("side header: %s", err)
				}
				p = raw
				r := raw
				sideTip = &r
			}
		}
		n := rapid.IntRange(1, 8).Draw(t, "offers")
		var offers []string
		bAccepted := false
		nontrivial := false
		for i := 0; i < n; i++ {
			kind := rapid.SampledFrom([]string{"A", "B", "other", "other", "side", "side", "A-orphan", "childOfB"}).Draw(t, "offer")
			if kind == "side" && sideTip == nil {
				kind = "other"
			}
			if kind == "childOfB" && !bAccepted {
				kind = "B"
			}
			offers = append(offers, kind)
			switch kind {
			case "A":
				if c := class(repo.ProcessHeader(ctx, fix.ToWire(&A))); c != "wrong-chain" {
					t.Fatalf("foreign split header answered %q, want wrong-chain", c)
				}
			case "B":
				if err := repo.ProcessHeader(ctx, fix.ToWire(&B)); err != nil {
					t.Fatalf("required split header refused: %s", err)
				}
				bAccepted = true
			case "other":
				raw := mk(chain[s], 0xC, uint32(200+i))
				if c := class(repo.ProcessHeader(ctx, fix.ToWire(&raw))); c != "wrong-chain" {
					t.Fatalf("header other than the required one at the split height answered %q, want wrong-chain", c)
				}
			case "side":
				raw := mk(*sideTip, 0xD, uint32(300+i))
				if c := class(repo.ProcessHeader(ctx, fix.ToWire(&raw))); c != "wrong-chain" {
					t.Fatalf("header at the split height on a side branch (fork depth %d) answered %q, want wrong-chain", j, c)
				}
				nontrivial = true
			case "A-orphan":
				other := headers.NewRepository(headers.DefaultConfig(), memstore.New())
				other.DisableDifficulty()
				other.InitializeWithGenesis()
				other.VerifSetSplits(foreign, required)
				if c := class(other.ProcessHeader(ctx, fix.ToWire(&A))); c != "wrong-chain" {
					t.Fatalf("foreign split header without its parent answered %q, want wrong-chain", c)
				}
				nontrivial = true
			case "childOfB":
				raw := mk(B, 0xE, uint32(400+i))
				if err := repo.ProcessHeader(ctx, fix.ToWire(&raw)); err != nil && class(err) != "depth" {
					t.Fatalf("child of the required split header refused: %s", err)
				}
			}
			if hsh, err := repo.Hash(ctx, s+1); err == nil && model.Hash(*hsh) != B.Hash() {
				t.Fatalf("Hash(%d) = %s is not the required split header", s+1, hsh)
			}
		}
		if err := repo.VerifyHeader(ctx, fix.ToWire(&B)); err != nil {
			t.Fatalf("VerifyHeader(required) = %s", err)
		}
		if c := class(repo.VerifyHeader(ctx, fix.ToWire(&A))); c != "wrong-chain" {
			t.Fatalf("VerifyHeader(foreign) = %q", c)
		}
		kc.Op("s=%d fork=%d offers=%v", s, j, offers)
		kc.NonTrivial = nontrivial
		kc.Done()
	})
}

// TestRegr_C03_constants compares the shipped split constants with the documented chain hashes and
// checks the verify-only locator of a production (mainnet) repository.
func TestRegr_C03_constants(t *testing.T) {
	ctx := vt.Ctx()
	repo := headers.NewRepository(headers.DefaultConfig(), memstore.New())
	repo.InitializeWithGenesis()
	bsv := h32(fix.BSVSplitHash)
	if !headers.MainNetRequiredHeader.BlockHash().Equal(&bsv) {
		t.Fatalf("MainNetRequiredHeader does not hash to the BSV split hash")
	}
	if err := repo.VerifyHeader(ctx, headers.MainNetRequiredHeader); err != nil {
		t.Fatalf("VerifyHeader(BSV) = %s", err)
	}
	loc, err := repo.GetVerifyOnlyLocatorHashes(ctx)
	if err != nil {
		t.Fatal(err)
	}
	before := h32(fix.SplitBefore)
	found := 0
	seen := map[bitcoin.Hash32]bool{}
	for _, h := range loc {
		if h.Equal(&before) {
			found++
		}
		if seen[h] {
			t.Fatalf("verify-only locator repeats %s", h)
		}
		seen[h] = true
	}
	if found != 1 {
		t.Fatalf("verify-only locator holds the 556766 hash %d times: %v", found, loc)
	}
	_ = fmt.Sprint
}

package pow

import (
	"encoding/json"
	"fmt"
	"math/big"
	"os"
	"path/filepath"
	"sync"
	"testing"

	"verifharness/internal/evid"
	"verifharness/internal/memstore"
	"verifharness/internal/model"
	"verifharness/internal/vt"

	"github.com/pkg/errors"
	"github.com/tokenized/bitcoin_reader/headers"
	"github.com/tokenized/pkg/bitcoin"
	"github.com/tokenized/pkg/wire"
	"pgregory.net/rapid"
)

func TestMain(m *testing.M) { vt.Main(m) }

func toWire(r *model.RawHeader) *wire.BlockHeader {
	return &wire.BlockHeader{Version: r.Version, PrevBlock: bitcoin.Hash32(r.Prev),
		MerkleRoot: bitcoin.Hash32(r.Merkle), Timestamp: r.Timestamp, Bits: r.Bits, Nonce: r.Nonce}
}

func fromWire(h *wire.BlockHeader) model.RawHeader {
	return model.RawHeader{Version: h.Version, Prev: model.Hash(h.PrevBlock), Merkle: model.Hash(h.MerkleRoot),
		Timestamp: h.Timestamp, Bits: h.Bits, Nonce: h.Nonce}
}

var mainGenesis = model.RawHeader{Version: 1,
	Merkle:    mustHash("4a5e1e4baab89f3a32518a88c31bc87f618f76673e2cc77ab2127b7afdeda33b"),
	Timestamp: 1231006505, Bits: 0x1d00ffff, Nonce: 2083236893}

func mustHash(s string) model.Hash {
	h, err := bitcoin.NewHash32FromStr(s)
	if err != nil {
		panic(err)
	}
	return model.Hash(*h)
}

func errClass(err error) string {
	switch errors.Cause(err) {
	case nil:
		return "accepted"
	case headers.ErrNotEnoughWork:
		return "not-enough-work"
	case headers.ErrInvalidTarget:
		return "invalid-target"
	case headers.ErrUnknownHeader:
		return "unknown"
	case headers.ErrWrongChain:
		return "wrong-chain"
	}
	return "other:" + err.Error()
}

// ---------------------------------------------------------------------------------------------
// fixtures

type fixture struct {
	name    string
	height  int
	work    *big.Int // chain work before the first header
	headers []*wire.BlockHeader
}

var (
	fixOnce sync.Once
	fixes   []*fixture
)

func repoRoot() string {
	if p := os.Getenv("VERIF_REPO"); p != "" {
		return p
	}
	return "/repo"
}

func fixtures() []*fixture {
	fixOnce.Do(func() {
		for _, f := range []struct {
			file   string
			height int
			work   string
		}{{"headers_556000.txt", 556000, "d167cf38dd7a9c078a40d5"}, {"headers_725000.txt", 725000, "134b2eb2b14bbedbad9a14b"}} {
			data, err := os.ReadFile(filepath.Join(repoRoot(), "headers", "test_fixtures", f.file))
			if err != nil {
				panic(err)
			}
			fx := &fixture{name: f.file, height: f.height, work: new(big.Int)}
			fx.work.SetString(f.work, 16)
			if err := json.Unmarshal(data, &fx.headers); err != nil {
				panic(err)
			}
			fixes = append(fixes, fx)
		}
	})
	return fixes
}

// newFixtureRepo returns a repository whose latest header is fixture header `start` with the
// following `warm` real headers added without difficulty checks (as the repository's own tests
// do), and difficulty checks enabled afterwards.
type fataler interface{ Fatalf(string, ...any) }

func newFixtureRepo(t fataler, fx *fixture, start, warm int) (*headers.Repository, *big.Int) {
	ctx := vt.Ctx()
	repo := headers.NewRepository(headers.DefaultConfig(), memstore.New())
	repo.DisableDifficulty()
	work := new(big.Int).Set(fx.work)
	for i := 0; i <= start; i++ {
		work.Add(work, model.BlockWork(fx.headers[i].Bits))
	}
	if err := repo.MockLatest(ctx, fx.headers[start], fx.height+start, new(big.Int).Set(work)); err != nil {
		t.Fatalf("MockLatest: %s", err)
	}
	for i := start + 1; i <= start+warm; i++ {
		if err := repo.ProcessHeader(ctx, fx.headers[i]); err != nil {
			t.Fatalf("warm header %d: %s", i, err)
		}
	}
	repo.EnableDifficulty()
	return repo, work
}

// ---------------------------------------------------------------------------------------------
// (a) decoder totality: no bits value may crash

func genBits() *rapid.Generator[uint32] {
	return rapid.Custom(func(t *rapid.T) uint32 {
		exp := rapid.OneOf(rapid.Uint32Range(0, 255), rapid.Uint32Range(0, 4), rapid.Uint32Range(0x1b, 0x23), rapid.SampledFrom([]uint32{0, 1, 2, 3, 0x1d, 0x20, 0x21, 0x22, 0x23, 0xff})).Draw(t, "exponent")
		var mant uint32
		switch rapid.IntRange(0, 6).Draw(t, "mantissaClass") {
		case 0:
			mant = 0
		case 1: // top byte zero
			mant = rapid.Uint32Range(0, 0xffff).Draw(t, "m")
		case 2: // sign bit set
			mant = 0x800000 | rapid.Uint32Range(0, 0x7fffff).Draw(t, "m")
		case 3:
			mant = 0x7fffff
		case 4: // top two bytes zero
			mant = rapid.Uint32Range(0, 0xff).Draw(t, "m")
		default:
			mant = rapid.Uint32Range(0, 0xffffff).Draw(t, "m")
		}
		return exp<<24 | mant
	})
}

func bitsClass(bits uint32) (cls string, hostile bool) {
	exp, mant := bits>>24, bits&0xffffff
	eff := exp
	if mant&0xff0000 == 0 {
		eff--
	}
	switch {
	case exp <= 2 || eff <= 2:
		return "effective_mantissa_length<=2", true
	case exp >= 0x21:
		return "exponent>=0x21", true
	case mant&0x800000 != 0:
		return "sign_bit", true
	case mant == 0:
		return "zero_mantissa", true
	}
	return "ordinary", false
}

const ruleBits = "bits drawn over every exponent byte 0..255 x mantissa classes (zero, top byte(s) zero, sign bit, 0x7fffff, random) and submitted through ProcessHeader on three repository states (genesis only with difficulty on; genesis only with difficulty off; mocked at a real 556xxx/725xxx height with 150 real predecessors so the difficulty adjustment path runs), as child of the tip and as orphan; oracle: the call returns (nil or error) - a panic is a violation; non-trivial = effective mantissa length <= 2, exponent >= 0x21, sign bit or zero mantissa; distinct = (bits class, exponent, repository state)"

func TestProp_C02_bits(t *testing.T) {
	col := evid.For("C02", "bits", ruleBits)
	fxs := fixtures()
	// one warm repository per fixture, re-used: refused headers must not change it
	var warm []*headers.Repository
	for _, fx := range fxs {
		r, _ := newFixtureRepo(t, fx, 0, 150)
		warm = append(warm, r)
	}
	rapid.Check(t, func(t *rapid.T) {
		k := col.NewCase()
		ctx := vt.Ctx()
		bits := genBits().Draw(t, "bits")
		state := rapid.IntRange(0, 2).Draw(t, "state")
		orphan := rapid.IntRange(0, 5).Draw(t, "orphan") == 0
		var repo *headers.Repository
		switch state {
		case 0, 1:
			repo = headers.NewRepository(headers.DefaultConfig(), memstore.New())
			repo.InitializeWithGenesis()
			if state == 1 {
				repo.DisableDifficulty()
			}
		case 2:
			repo = warm[rapid.IntRange(0, len(warm)-1).Draw(t, "fixture")]
		}
		prev := model.Hash(repo.LastHash())
		if orphan {
			prev[5] ^= 0x40
		}
		raw := model.RawHeader{Version: 1, Prev: prev, Timestamp: repo.LastTime() + 600, Bits: bits, Nonce: rapid.Uint32().Draw(t, "nonce")}
		raw.Merkle[0] = byte(bits)
		var err error
		if p := vt.Catch(func() { err = repo.ProcessHeader(ctx, toWire(&raw)) }); p != nil {
			t.Fatalf("ProcessHeader with bits 0x%08x (state %d, orphan=%v) panicked: %v", bits, state, orphan, p)
		}
		cls, hostile := bitsClass(bits)
		k.Class(cls)
		k.Class(fmt.Sprintf("state%d", state))
		k.Op("%s exp=%02x state=%d orphan=%v -> %s", cls, bits>>24, state, orphan, errClass(err))
		k.NonTrivial = hostile
		k.Done()
	})
}

// ---------------------------------------------------------------------------------------------
// (b) hash versus target, two-sided

const ruleTarget = "chains of 1..4 headers on a genesis-only repository with difficulty checks ON; each header's bits from easy classes (0x207fffff p=1/2, 0x2000ffff, 0x1f7fffff, 0x1f00ffff, negative 0x20ffffff, overflowing 0x21..0x23, random) and its nonce searched so that the hash lands on the drawn side of the target (construction, not rejection); oracle two-sided with a declared band: MUST be refused when the hash exceeds the target under the most permissive reading of the bits (24-bit mantissa as magnitude x 256^(exp-3)); MUST be accepted when the bits are a strict consensus encoding (positive, non-overflowing, non-zero) and the hash <= that target (below the difficulty-adjustment height, parent known); anything in between may go either way; non-trivial = case containing both an accepted and a refused header; distinct = (bits, side) list"

func mine(raw *model.RawHeader, want func(hashValue *big.Int) bool, tries int) bool {
	for i := 0; i < tries; i++ {
		if want(model.HashValue(raw.Hash())) {
			return true
		}
		raw.Nonce++
	}
	return false
}

func TestProp_C02_target(t *testing.T) {
	col := evid.For("C02", "target", ruleTarget)
	rapid.Check(t, func(t *rapid.T) {
		k := col.NewCase()
		ctx := vt.Ctx()
		repo := headers.NewRepository(headers.DefaultConfig(), memstore.New())
		repo.InitializeWithGenesis()
		prev, ts := mainGenesis.Hash(), mainGenesis.Timestamp
		n := rapid.IntRange(1, 4).Draw(t, "n")
		accepted, refused := 0, 0
		for i := 0; i < n; i++ {
			bits := rapid.OneOf(
				rapid.SampledFrom([]uint32{0x207fffff, 0x207fffff, 0x2000ffff, 0x1f7fffff, 0x1f00ffff, 0x20ffffff, 0x2100ffff, 0x21010000, 0x22000100, 0x2300007f, 0x2000ff00, 0x20008000}),
				rapid.Custom(func(t *rapid.T) uint32 {
					return rapid.Uint32Range(0x1f, 0x22).Draw(t, "e")<<24 | rapid.Uint32Range(1, 0xffffff).Draw(t, "m")
				})).Draw(t, "bits")
			wantBelow := rapid.Bool().Draw(t, "hashBelowTarget")
			strictT, neg, over := model.CompactDecode(bits)
			strict := !neg && !over && strictT.Sign() > 0
			perm := model.CompactPermissive(bits)
			raw := model.RawHeader{Version: 1, Prev: prev, Timestamp: ts + 600, Bits: bits, Nonce: rapid.Uint32Range(0, 1<<30).Draw(t, "nonce0")}
			raw.Merkle[0], raw.Merkle[1] = byte(i), 0xB2
			// choose the side by construction
			var found bool
			if wantBelow {
				limit := perm
				if strict {
					limit = strictT
				}
				found = mine(&raw, func(v *big.Int) bool { return v.Cmp(limit) <= 0 }, 400000)
			} else {
				found = mine(&raw, func(v *big.Int) bool { return v.Cmp(perm) > 0 }, 4000)
			}
			if !found {
				k.Class("side_unreachable")
				continue
			}
			v := model.HashValue(raw.Hash())
			mustReject := v.Cmp(perm) > 0
			mustAccept := strict && v.Cmp(strictT) <= 0
			var err error
			if p := vt.Catch(func() { err = repo.ProcessHeader(ctx, toWire(&raw)) }); p != nil {
				t.Fatalf("ProcessHeader(bits 0x%08x) panicked: %v", bits, p)
			}
			cls := errClass(err)
			k.Op("bits=%08x below=%v strict=%v -> %s", bits, wantBelow, strict, cls)
			if mustReject && err == nil {
				t.Fatalf("header with bits 0x%08x and hash value %s > target %s (most permissive reading) was accepted", bits, v.Text(16), perm.Text(16))
			}
			if mustReject && cls != "not-enough-work" {
				t.Fatalf("header with hash above its target refused as %q, want not-enough-work", cls)
			}
			if mustAccept && err != nil {
				t.Fatalf("header with strict bits 0x%08x and hash value %s <= target %s was refused: %s", bits, v.Text(16), strictT.Text(16), err)
			}
			if err == nil {
				accepted++
				if h := model.Hash(repo.LastHash()); h != raw.Hash() {
					t.Fatalf("accepted header is not the tip")
				}
				prev, ts = raw.Hash(), raw.Timestamp
			} else {
				refused++
				if repo.HashHeight(bitcoin.Hash32(raw.Hash())) != -1 {
					t.Fatalf("refused header was retained")
				}
			}
			if !strict {
				k.Class("non_strict_encoding")
			}
		}
		k.NonTrivial = accepted > 0 && refused > 0
		k.Done()
	})
}

// ---------------------------------------------------------------------------------------------
// (c) difficulty adjustment differential on Branch.Target

type win struct {
	raws   []model.RawHeader // heights h0 .. h0+len-1
	blocks []*model.PowBlock
}

const ruleDAA = "synthetic windows of 147..260 headers built directly on headers.Branch (NewBranch/Add do not check proof of work) starting at height 600000; timestamps from classes (regular 600 s, all equal, ties inside every median triple in every order, strictly decreasing, decreasing over the whole window so the signed span is negative, far-future spikes, uint32 wrap region, random walk) and bits SELF-CONSISTENT (every header carries the bits the reference requires for its position, starting from 0x18021fdb or 0x1d00ffff or 0x1c0fffff); the window lies on one branch or is split over a parent/child/grandchild branch with fork points drawn anywhere (inside either median triple or the 144 span); oracle: ConvertToBits(Branch.Target(h)) == line-by-line port of the network rule (3-swap median with strict >, SIGNED span clamped to [72,288]*600, work*600/span, (2^256-W)/W, cap at powLimit, GetCompact) for EVERY height h with 147 predecessors; non-trivial = a tie inside a median triple that the swap network and a stable sort order differently, or a negative/over-long span, or a fork point inside a median triple; distinct = (timestamp class, start bits, split layout)"

func genTimes(t *rapid.T, n int) ([]uint32, string) {
	ts := make([]uint32, n)
	class := rapid.SampledFrom([]string{"regular", "slow", "equal", "ties", "ties", "decreasing", "negative_span", "spikes", "wrap", "walk", "walk"}).Draw(t, "timeClass")
	base := uint32(1542300000)
	switch class {
	case "regular":
		for i := range ts {
			ts[i] = base + uint32(i)*600
		}
	case "slow": // blocks far apart: span above the upper clamp
		step := rapid.Uint32Range(1100, 4000).Draw(t, "slowStep")
		for i := range ts {
			ts[i] = base + uint32(i)*step + uint32(rapid.IntRange(0, 400).Draw(t, "jit"))
		}
	case "equal":
		for i := range ts {
			ts[i] = base
		}
	case "ties":
		// small alphabet so that every triple pattern (a,a,b), (a,b,a), (b,a,a) ... occurs
		cur := base
		for i := range ts {
			ts[i] = cur + uint32(rapid.IntRange(0, 2).Draw(t, "tie"))*600
			if i%3 == 2 {
				cur += uint32(rapid.IntRange(0, 1200).Draw(t, "step"))
			}
		}
	case "decreasing":
		for i := range ts {
			ts[i] = base + uint32(n-i)*rapid.Uint32Range(1, 900).Draw(t, "dec")
		}
	case "negative_span":
		for i := range ts {
			ts[i] = base + uint32(n-i)*600 + uint32(rapid.IntRange(0, 50).Draw(t, "jit"))
		}
	case "spikes":
		for i := range ts {
			ts[i] = base + uint32(i)*600
			if rapid.IntRange(0, 9).Draw(t, "spike") == 0 {
				ts[i] += rapid.Uint32Range(7200, 4000000).Draw(t, "future")
			}
		}
	case "wrap":
		for i := range ts {
			ts[i] = 0xffffffff - uint32(n*600) + uint32(i)*600 + rapid.Uint32Range(0, 1300).Draw(t, "w")
		}
	case "walk":
		cur := int64(base)
		for i := range ts {
			cur += int64(rapid.IntRange(-2000, 3500).Draw(t, "d"))
			if cur < 1 {
				cur = 1
			}
			ts[i] = uint32(cur)
		}
	}
	return ts, class
}

func TestProp_C02_daa(t *testing.T) {
	col := evid.For("C02", "daa", ruleDAA)
	rapid.Check(t, func(t *rapid.T) {
		k := col.NewCase()
		ctx := vt.Ctx()
		const h0 = 600000
		n := rapid.IntRange(150, 260).Draw(t, "n")
		times, class := genTimes(t, n)
		startBits := rapid.SampledFrom([]uint32{0x18021fdb, 0x18021fdb, 0x1d00ffff, 0x1c0fffff, 0x1803a30c}).Draw(t, "startBits")
		// split layout: up to two fork points; the branch of interest is the last one
		nSplits := rapid.SampledFrom([]int{0, 0, 1, 1, 2}).Draw(t, "splits")
		var forks []int // index of the first header of each child branch
		for i := 0; i < nSplits; i++ {
			lo := 1
			if len(forks) > 0 {
				lo = forks[len(forks)-1] + 1
			}
			if lo > n-2 {
				break
			}
			var f int
			if rapid.Bool().Draw(t, "forkNearEnd") {
				f = rapid.IntRange(max(lo, n-150), n-1).Draw(t, "fork")
			} else {
				f = rapid.IntRange(lo, n-1).Draw(t, "fork")
			}
			forks = append(forks, f)
		}
		// build the chain with self-consistent bits
		blocks := make([]*model.PowBlock, n)
		raws := make([]model.RawHeader, n)
		at := func(h int) *model.PowBlock { return blocks[h-h0] }
		var prev model.Hash
		prev[0] = 0x77
		work := new(big.Int)
		for i := 0; i < n; i++ {
			bits := startBits
			if i >= 147 {
				bits = model.NextBitsDAA(at, h0+i-1)
			}
			raws[i] = model.RawHeader{Version: 1, Prev: prev, Timestamp: times[i], Bits: bits, Nonce: uint32(i)}
			raws[i].Merkle[0], raws[i].Merkle[1] = byte(i), byte(i>>8)
			work = new(big.Int).Add(work, model.BlockWork(bits))
			blocks[i] = &model.PowBlock{Height: h0 + i, Time: times[i], Bits: bits, ChainWork: work}
			prev = raws[i].Hash()
		}
		// lay it out on branches
		branch, err := headers.NewBranch(nil, h0-1, toWire(&raws[0]))
		if err != nil {
			t.Fatalf("NewBranch: %s", err)
		}
		next := 0
		for i := 1; i < n; i++ {
			if next < len(forks) && forks[next] == i {
				// decoy continuation on the parent so the fork is a real fork
				decoy := raws[i]
				decoy.Nonce ^= 0xABCDEF
				decoy.Timestamp += 17
				child, err := headers.NewBranch(branch, h0+i-1, toWire(&raws[i]))
				if err != nil {
					t.Fatalf("NewBranch child at %d: %s", i, err)
				}
				branch.Add(toWire(&decoy))
				branch = child
				next++
				continue
			}
			if !branch.Add(toWire(&raws[i])) {
				t.Fatalf("Add %d failed", i)
			}
		}
		// compare for every height that has 147 predecessors, including the next block
		interesting := false
		for i := 147; i <= n; i++ {
			h := h0 + i
			want := model.NextBitsDAA(at, h-1)
			var target *big.Int
			var terr error
			if p := vt.Catch(func() { target, terr = branch.Target(ctx, h) }); p != nil {
				t.Fatalf("Branch.Target(%d) panicked: %v", h, p)
			}
			if terr != nil {
				t.Fatalf("Branch.Target(%d) failed: %s", h, terr)
			}
			got := bitcoin.ConvertToBits(target, bitcoin.MaxBits)
			if got != want {
				lt, ft := suitableTimes(at, h-1)
				t.Fatalf("Branch.Target(%d) => bits 0x%08x, network rule requires 0x%08x (time class %s, forks %v, last triple times %v, first triple times %v)", h, got, want, class, forks, lt, ft)
			}
			// classification
			lt, ft := suitableTimes(at, h-1)
			if tieMatters(lt) || tieMatters(ft) {
				k.Class("median_tie_order_sensitive")
				interesting = true
			}
			span := int64(medianTime(lt)) - int64(medianTime(ft))
			if span < 0 {
				k.Class("negative_span")
				interesting = true
			} else if span > 288*600 {
				k.Class("span_above_clamp")
				interesting = true
			} else if span < 72*600 {
				k.Class("span_below_clamp")
			}
			for _, f := range forks {
				d := i - f
				if (d >= 1 && d <= 3) || (d >= 145 && d <= 147) {
					k.Class("fork_inside_median_triple")
					interesting = true
				}
			}
		}
		k.Class("time_" + class)
		k.Op("class=%s start=%08x n=%d forks=%v", class, startBits, n/20, forkBuckets(forks, n))
		k.NonTrivial = interesting
		k.Done()
	})
}

func forkBuckets(forks []int, n int) []int {
	r := make([]int, len(forks))
	for i, f := range forks {
		r[i] = (n - f) / 8
	}
	return r
}

func max(a, b int) int {
	if a > b {
		return a
	}
	return b
}

func suitableTimes(at func(int) *model.PowBlock, prev int) (last, first [3]uint32) {
	for i := 0; i < 3; i++ {
		last[i] = at(prev - 2 + i).Time
		first[i] = at(prev - 144 - 2 + i).Time
	}
	return
}

// tieMatters: the swap network and a stable sort pick different middle elements.
func tieMatters(t [3]uint32) bool {
	// network
	b := [3]int{0, 1, 2}
	tm := func(i int) uint32 { return t[i] }
	if tm(b[0]) > tm(b[2]) {
		b[0], b[2] = b[2], b[0]
	}
	if tm(b[0]) > tm(b[1]) {
		b[0], b[1] = b[1], b[0]
	}
	if tm(b[1]) > tm(b[2]) {
		b[1], b[2] = b[2], b[1]
	}
	// stable insertion sort
	s := []int{0, 1, 2}
	for i := 1; i < 3; i++ {
		for j := i; j > 0 && t[s[j]] < t[s[j-1]]; j-- {
			s[j], s[j-1] = s[j-1], s[j]
		}
	}
	return b[1] != s[1]
}

func medianTime(t [3]uint32) uint32 {
	a, b, c := t[0], t[1], t[2]
	if a > c {
		a, c = c, a
	}
	if a > b {
		a, b = b, a
	}
	if b > c {
		b, c = c, b
	}
	return b
}

// ---------------------------------------------------------------------------------------------
// (d) the real chain, with generated branch shapes and single-field mutations

const ruleReal = "real mainnet headers (fixtures 556000.. and 725000.., 2822 headers): a drawn start offset, 150 real predecessors added unchecked (as the repository's own tests do), then 5..60 real headers with difficulty checks ON arriving in generated SHAPES: as tip extensions, as the first header of a new branch (a synthetic sibling of the real header is inserted first, unchecked), and on a non-longest branch (a synthetic competitor with far more work is inserted, unchecked, so the real chain is no longer the longest); oracle: every real header is accepted; plus single-field mutations of the next real header (version, previous hash, merkle root, timestamp, nonce, bits harder, bits absurdly easy such as 0x2100ffff whose hash check passes): refused, as invalid-target when the hash check passes at height >= 556767, else not-enough-work (a previous-hash mutation may also be unknown); non-trivial = case with a non-trivial shape (new-branch or non-longest) and a mutated-bits-with-passing-hash refusal at height >= 556767; distinct = (fixture, start bucket, shape list, mutation list)"

func TestProp_C02_real(t *testing.T) {
	col := evid.For("C02", "real", ruleReal)
	fxs := fixtures()
	rapid.Check(t, func(t *rapid.T) {
		k := col.NewCase()
		ctx := vt.Ctx()
		fi := rapid.IntRange(0, len(fxs)-1).Draw(t, "fixture")
		fx := fxs[fi]
		count := rapid.IntRange(5, 60).Draw(t, "count")
		start := rapid.IntRange(0, len(fx.headers)-151-count-1).Draw(t, "start")
		if fi == 0 && rapid.Bool().Draw(t, "aroundSplit") {
			start = rapid.IntRange(767-150-count, 767-150).Draw(t, "startSplit") // cross 556767
		}
		repo, _ := newFixtureRepo(t, fx, start, 150)
		shapes, muts := []string{}, []string{}
		easyRefused := false
		for i := start + 151; i < start+151+count; i++ {
			real := fx.headers[i]
			height := fx.height + i
			// shape
			shape := rapid.SampledFrom([]string{"tip", "tip", "tip", "tip", "newbranch", "nonlongest"}).Draw(t, "shape")
			if height == 556767 {
				shape = "tip" // nothing but the BSV split header is accepted at this height (C03)
			}
			if shape != "tip" {
				sib := fromWire(real)
				sib.Nonce ^= 0x5a5a5a5a
				sib.Merkle[3] ^= 1
				if shape == "nonlongest" {
					sib.Bits = 0x1700ffff // far more work than a real header
				}
				repo.DisableDifficulty()
				if err := repo.ProcessHeader(ctx, toWire(&sib)); err != nil {
					t.Fatalf("synthetic sibling at %d: %s", height, err)
				}
				repo.EnableDifficulty()
				shapes = append(shapes, shape)
			}
			// mutation of the real header first (must be refused and change nothing)
			if rapid.IntRange(0, 2).Draw(t, "mutate") == 0 {
				m := fromWire(real)
				field := rapid.SampledFrom([]string{"version", "prev", "merkle", "time", "nonce", "bits_harder", "bits_easy", "bits_easy"}).Draw(t, "field")
				switch field {
				case "version":
					m.Version ^= 1 << uint(rapid.IntRange(0, 28).Draw(t, "bit"))
				case "prev":
					m.Prev[rapid.IntRange(0, 31).Draw(t, "byte")] ^= 1
				case "merkle":
					m.Merkle[rapid.IntRange(0, 31).Draw(t, "byte")] ^= 1
				case "time":
					m.Timestamp += uint32(rapid.IntRange(1, 7200).Draw(t, "dt"))
				case "nonce":
					m.Nonce += uint32(rapid.IntRange(1, 1000).Draw(t, "dn"))
				case "bits_harder":
					m.Bits -= uint32(rapid.IntRange(1, 0xffff).Draw(t, "db"))
				case "bits_easy":
					m.Bits = rapid.SampledFrom([]uint32{0x2100ffff, 0x207fffff, 0x2000ffff, 0x1d00ffff}).Draw(t, "easy")
				}
				v := model.HashValue(m.Hash())
				perm := model.CompactPermissive(m.Bits)
				hashPasses := v.Cmp(perm) <= 0
				var err error
				if p := vt.Catch(func() { err = repo.ProcessHeader(ctx, toWire(&m)) }); p != nil {
					t.Fatalf("mutated header (%s) at %d panicked: %v", field, height, p)
				}
				cls := errClass(err)
				muts = append(muts, field)
				switch {
				case err == nil && height >= 556767:
					t.Fatalf("header at height %d with mutated %s (bits 0x%08x, real 0x%08x) was accepted", height, field, m.Bits, real.Bits)
				case err == nil && !hashPasses:
					t.Fatalf("header at height %d with mutated %s and hash above its target was accepted", height, field)
				case err == nil:
					// below the activation height a passing hash is all that is required; undo is
					// impossible, so stop this case here
					k.Class("mutation_accepted_below_activation")
					k.Op("fixture=%d start=%d shapes=%v muts=%v", fi, start/100, shapes, muts)
					k.Done()
					return
				case !hashPasses && cls != "not-enough-work":
					t.Fatalf("mutated %s at %d: hash above target refused as %q", field, height, cls)
				case height == 556767 && cls == "wrong-chain":
					// only the BSV split header is accepted at this height (C03)
				case hashPasses && field != "prev" && cls != "invalid-target":
					t.Fatalf("mutated %s at %d (bits 0x%08x, hash passes): refused as %q, want invalid-target", field, height, m.Bits, cls)
				case hashPasses && field == "prev" && cls != "unknown" && cls != "invalid-target":
					t.Fatalf("mutated prev at %d: refused as %q", height, cls)
				}
				if hashPasses && height >= 556767 {
					easyRefused = true
					k.Class("mutated_bits_passing_hash_refused_at>=556767")
				}
			}
			var err error
			if p := vt.Catch(func() { err = repo.ProcessHeader(ctx, real) }); p != nil {
				t.Fatalf("real header %d panicked: %v", height, p)
			}
			if err != nil {
				t.Fatalf("real mainnet header at height %d (bits 0x%08x) arriving as %q was refused: %s", height, real.Bits, shape, err)
			}
		}
		k.Op("fixture=%d start=%d shapes=%v muts=%v", fi, start/100, shapes, muts)
		for _, s := range shapes {
			k.Class("shape_" + s)
		}
		k.NonTrivial = len(shapes) > 0 && easyRefused
		k.Done()
	})
}

// TestRegr_C02_fixtures_full: every header of both real windows is accepted with difficulty
// checks on, and the reference DAA port reproduces every real bits value (validates the oracle).
func TestRegr_C02_fixtures_full(t *testing.T) {
	ctx := vt.Ctx()
	for _, fx := range fixtures() {
		repo, work := newFixtureRepo(t, fx, 0, 150)
		blocks := make([]*model.PowBlock, len(fx.headers))
		w := new(big.Int).Set(fx.work)
		for i, h := range fx.headers {
			w = new(big.Int).Add(w, model.BlockWork(h.Bits))
			blocks[i] = &model.PowBlock{Height: fx.height + i, Time: h.Timestamp, Bits: h.Bits, ChainWork: w}
		}
		_ = work
		at := func(h int) *model.PowBlock { return blocks[h-fx.height] }
		for i := 151; i < len(fx.headers); i++ {
			if want := model.NextBitsDAA(at, fx.height+i-1); want != fx.headers[i].Bits {
				t.Fatalf("reference DAA disagrees with the real chain at %d: 0x%08x vs 0x%08x", fx.height+i, want, fx.headers[i].Bits)
			}
			if err := repo.ProcessHeader(ctx, fx.headers[i]); err != nil {
				t.Fatalf("real header %d refused: %s", fx.height+i, err)
			}
		}
		if got := repo.AccumulatedWork(); got.Cmp(w) != 0 {
			t.Fatalf("accumulated work %s, reference %s", got.Text(16), w.Text(16))
		}
	}
}

// TestRegr_C02_bits_panic: shrunk failures of the decoder-totality leg.
func TestRegr_C02_bits_panic(t *testing.T) {
	for _, bits := range []uint32{0x01010000, 0x02000100, 0x01ff0000, 0x0200ffff, 0x01800000} {
		for _, disable := range []bool{false, true} {
			repo := headers.NewRepository(headers.DefaultConfig(), memstore.New())
			repo.InitializeWithGenesis()
			if disable {
				repo.DisableDifficulty()
			}
			raw := model.RawHeader{Version: 1, Prev: mainGenesis.Hash(), Timestamp: mainGenesis.Timestamp + 600, Bits: bits, Nonce: 1}
			if p := vt.Catch(func() { repo.ProcessHeader(vt.Ctx(), toWire(&raw)) }); p != nil {
				t.Fatalf("ProcessHeader with bits 0x%08x (difficulty disabled=%v) panicked: %v", bits, disable, p)
			}
		}
	}
}

// FuzzC02Header: coverage-guided 80-byte headers through ProcessHeader (thorough tier).
func FuzzC02Header(f *testing.F) {
	g := mainGenesis
	child := model.RawHeader{Version: 1, Prev: g.Hash(), Timestamp: g.Timestamp + 600, Bits: 0x207fffff, Nonce: 7}
	f.Add(child.Bytes())
	hostile := child
	hostile.Bits = 0x01010000
	f.Add(hostile.Bytes())
	hostile.Bits = 0xff7fffff
	f.Add(hostile.Bytes())
	f.Add(make([]byte, 80))
	f.Fuzz(func(t *testing.T, data []byte) {
		if len(data) < 80 {
			return
		}
		var raw model.RawHeader
		raw.Version = int32(uint32(data[0]) | uint32(data[1])<<8 | uint32(data[2])<<16 | uint32(data[3])<<24)
		copy(raw.Prev[:], data[4:36])
		copy(raw.Merkle[:], data[36:68])
		raw.Timestamp = uint32(data[68]) | uint32(data[69])<<8 | uint32(data[70])<<16 | uint32(data[71])<<24
		raw.Bits = uint32(data[72]) | uint32(data[73])<<8 | uint32(data[74])<<16 | uint32(data[75])<<24
		raw.Nonce = uint32(data[76]) | uint32(data[77])<<8 | uint32(data[78])<<16 | uint32(data[79])<<24
		if len(data) > 80 && data[80]&1 == 1 {
			raw.Prev = mainGenesis.Hash() // reach the code behind the parent lookup
		}
		repo := headers.NewRepository(headers.DefaultConfig(), memstore.New())
		repo.InitializeWithGenesis()
		if len(data) > 80 && data[80]&2 == 2 {
			repo.DisableDifficulty()
		}
		err := repo.ProcessHeader(vt.Ctx(), toWire(&raw))
		if err == nil {
			v := model.HashValue(raw.Hash())
			if len(data) > 80 && data[80]&2 == 2 {
				return
			}
			if v.Cmp(model.CompactPermissive(raw.Bits)) > 0 {
				t.Fatalf("accepted header whose hash exceeds its target")
			}
		}
	})
}

package syncp

import (
	"context"
	"fmt"
	"strings"
	"sync"
	"testing"
	"time"

	"verifharness/internal/evid"
	"verifharness/internal/memstore"
	"verifharness/internal/model"
	"verifharness/internal/p2p"
	"verifharness/internal/spy"
	"verifharness/internal/vt"

	"github.com/google/uuid"
	bitcoin_reader "github.com/tokenized/bitcoin_reader"
	"github.com/tokenized/bitcoin_reader/headers"
	"github.com/tokenized/config"
	"github.com/tokenized/pkg/bitcoin"
	"github.com/tokenized/pkg/wire"
	"pgregory.net/rapid"
)

func TestMain(m *testing.M) { vt.Main(m) }

var genesis = model.RawHeader{Version: 1,
	Merkle:    hashOf("4a5e1e4baab89f3a32518a88c31bc87f618f76673e2cc77ab2127b7afdeda33b"),
	Timestamp: 1231006505, Bits: 0x1d00ffff, Nonce: 2083236893}

func hashOf(s string) model.Hash {
	h, err := bitcoin.NewHash32FromStr(s)
	if err != nil {
		panic(err)
	}
	return model.Hash(*h)
}

func toWire(r *model.RawHeader) *wire.BlockHeader {
	return &wire.BlockHeader{Version: r.Version, PrevBlock: bitcoin.Hash32(r.Prev),
		MerkleRoot: bitcoin.Hash32(r.Merkle), Timestamp: r.Timestamp, Bits: r.Bits, Nonce: r.Nonce}
}

type blk struct {
	header model.RawHeader
	tx     *wire.MsgTx
	hash   model.Hash
	height int
}

// world is a header repository plus the blocks behind its headers (one coinbase each).
type world struct {
	repo   *headers.Repository
	mu     sync.Mutex
	blocks map[model.Hash]*blk
	ctr    uint32
}

func newWorld() *world {
	repo := headers.NewRepository(headers.DefaultConfig(), memstore.New())
	repo.DisableDifficulty()
	repo.InitializeWithGenesis()
	return &world{repo: repo, blocks: map[model.Hash]*blk{}}
}

// extend adds n blocks on top of parent (hash, height, timestamp) and returns them.
func (w *world) extend(t interface{ Fatalf(string, ...any) }, parent model.RawHeader, parentHeight, n int, bits uint32) []*blk {
	var out []*blk
	prev := parent
	for i := 0; i < n; i++ {
		w.mu.Lock()
		w.ctr++
		tx := p2p.Tx(0x50000+w.ctr, 90)
		w.mu.Unlock()
		h := model.RawHeader{Version: 1, Prev: prev.Hash(), Timestamp: prev.Timestamp + 600, Bits: bits, Nonce: w.ctr, Merkle: p2p.TxID(tx)}
		if err := w.repo.ProcessHeader(vt.Ctx(), toWire(&h)); err != nil {
			t.Fatalf("extend: %s", err)
		}
		b := &blk{header: h, tx: tx, hash: h.Hash(), height: parentHeight + i + 1}
		w.mu.Lock()
		w.blocks[b.hash] = b
		w.mu.Unlock()
		out = append(out, b)
		prev = h
	}
	return out
}

// genFates: what the block source does with one request; the slow variants keep the download active
// across several of the block manager's request-delay ticks first.
var genFates = []string{"nonode", "drop", "wrong", "serve", "slowdrop", "slowwrong", "slowserve"}

// source is the scripted block source.
type source struct {
	w           *world
	mu          sync.Mutex
	fates       []string // consumed one per RequestBlock call, then "serve"
	requests    []model.Hash
	fateLog     []string
	probe       func(bitcoin.Hash32) string // diagnostic: state of the manager at request time
	cancelDelay time.Duration               // how long the node takes to answer a cancel
	hold        chan struct{}               // when non-nil, served blocks wait for it (to keep a request pending)
	// holdHash: the next request for that block signals arrived and waits for holdCh (once)
	holdHash *model.Hash
	holdCh   chan struct{}
	arrived  chan struct{}
	wg       sync.WaitGroup
}

type canceller struct {
	delay     time.Duration
	id        uuid.UUID
	mu        sync.Mutex
	started   bool
	cancelled bool
	ch        chan *wire.MsgTx
	closed    bool
}

func (c *canceller) ID() uuid.UUID { return c.id }
func (c *canceller) CancelBlockRequest(ctx context.Context, h bitcoin.Hash32) bool {
	if c.delay > 0 {
		time.Sleep(c.delay) // a node that is slow to answer the cancel (it takes its own lock there)
	}
	c.mu.Lock()
	defer c.mu.Unlock()
	c.cancelled = true
	if c.started {
		c.closeLocked()
		return true
	}
	return false
}
func (c *canceller) closeLocked() {
	if !c.closed {
		c.closed = true
		close(c.ch)
	}
}
func (c *canceller) send(tx *wire.MsgTx, done <-chan struct{}) {
	defer func() { recover() }()
	select {
	case c.ch <- tx:
	case <-done:
	case <-time.After(10 * time.Second):
	}
}

func (s *source) RequestBlock(ctx context.Context, hash bitcoin.Hash32, handler bitcoin_reader.HandleBlock,
	onStop bitcoin_reader.OnStop) (bitcoin_reader.BlockRequestCanceller, error) {
	s.mu.Lock()
	fate := "serve"
	if len(s.fates) > 0 {
		fate, s.fates = s.fates[0], s.fates[1:]
	}
	s.requests = append(s.requests, model.Hash(hash))
	extra := ""
	if s.probe != nil {
		extra = s.probe(hash)
	}
	s.fateLog = append(s.fateLog, fate+extra)
	hold := s.hold
	if fate != "nonode" && s.holdHash != nil && *s.holdHash == model.Hash(hash) {
		hold = s.holdCh
		s.holdHash = nil
		close(s.arrived)
	}
	s.mu.Unlock()
	if fate == "nonode" {
		return nil, bitcoin_reader.ErrNodeNotAvailable
	}
	// "slow..." fates: the download is still active when the manager's request delay (2 ms) ticks,
	// several times, before it ends the way the rest of the name says
	slow := time.Duration(0)
	if strings.HasPrefix(fate, "slow") {
		slow, fate = 9*time.Millisecond, fate[4:]
	}
	s.w.mu.Lock()
	b := s.w.blocks[model.Hash(hash)]
	s.w.mu.Unlock()
	if b == nil {
		return nil, fmt.Errorf("unknown block requested")
	}
	c := &canceller{id: uuid.New(), ch: make(chan *wire.MsgTx), delay: s.cancelDelay}
	s.wg.Add(1)
	go func() {
		defer s.wg.Done()
		if hold != nil {
			<-hold
		}
		if slow > 0 {
			time.Sleep(slow)
		}
		start := func(h model.RawHeader) (chan struct{}, bool) {
			c.mu.Lock()
			if c.cancelled {
				c.mu.Unlock()
				return nil, false
			}
			c.started = true
			c.mu.Unlock()
			done := make(chan struct{})
			go func() { handler(ctx, toWire(&h), 1, c.ch); close(done) }()
			return done, true
		}
		finish := func(done chan struct{}) {
			c.mu.Lock()
			c.closeLocked()
			c.mu.Unlock()
			<-done
		}
		switch fate {
		case "serve":
			if done, ok := start(b.header); ok {
				c.send(b.tx, done)
				finish(done)
			}
		case "wrong":
			other := b.header
			other.Nonce ^= 0xffff
			if done, ok := start(other); ok {
				c.send(b.tx, done)
				finish(done)
			}
		case "drop":
			if done, ok := start(b.header); ok {
				onStop(ctx)
				finish(done)
			}
		}
	}()
	return c, nil
}

// flakyBlockTxs fails the n-th FetchBlockTxIDs lookup once (a storage error of the application's
// block store); everything else goes to the recording store.
type flakyBlockTxs struct {
	spy.BlockTxs
	mu     *sync.Mutex
	calls  *int
	failAt int
}

func (f flakyBlockTxs) FetchBlockTxIDs(ctx context.Context, hash bitcoin.Hash32) ([]bitcoin.Hash32, bool, error) {
	f.mu.Lock()
	*f.calls++
	fail := *f.calls == f.failAt
	f.mu.Unlock()
	if fail {
		return nil, false, spy.ErrInjected
	}
	return f.BlockTxs.FetchBlockTxIDs(ctx, hash)
}

type rig struct {
	w       *world
	src     *source
	log     *spy.Log
	nm      *bitcoin_reader.NodeManager
	bm      *bitcoin_reader.BlockManager
	stop    chan interface{}
	bmDone  chan struct{}
	started bool
}

func newRig(w *world, startHeight int, fates []string) *rig {
	return newRigFlaky(w, startHeight, fates, 0)
}

// newRigFlaky: lookupFailAt > 0 makes that FetchBlockTxIDs call of the node manager fail once.
func newRigFlaky(w *world, startHeight int, fates []string, lookupFailAt int) *rig {
	log := spy.NewLog()
	src := &source{w: w, fates: fates}
	cfg := bitcoin_reader.DefaultConfig()
	cfg.StartBlockHeight = startHeight
	cfg.Timeout = config.NewDuration(time.Hour)
	nm := bitcoin_reader.NewNodeManager("/verif:1/", cfg, w.repo, bitcoin_reader.NewPeerRepository(memstore.New(), ""))
	bm := bitcoin_reader.NewBlockManager(spy.BlockTxs{L: log}, src, 1, 2*time.Millisecond)
	if lookupFailAt > 0 {
		nm.SetBlockManager(flakyBlockTxs{BlockTxs: spy.BlockTxs{L: log}, mu: &sync.Mutex{}, calls: new(int), failAt: lookupFailAt}, bm, spy.Processor{L: log})
	} else {
		nm.SetBlockManager(spy.BlockTxs{L: log}, bm, spy.Processor{L: log})
	}
	r := &rig{w: w, src: src, log: log, nm: nm, bm: bm, stop: make(chan interface{}), bmDone: make(chan struct{})}
	t0 := time.Now()
	src.probe = func(h bitcoin.Hash32) string {
		return fmt.Sprintf("[active=%d processed=%v t=%dus]", bm.DownloaderCount(h), log.Processed(model.Hash(h)), time.Since(t0).Microseconds())
	}
	go func() { bm.Run(vt.Ctx(), r.stop); close(r.bmDone) }()
	return r
}

func (r *rig) close() {
	close(r.stop)
	select {
	case <-r.bmDone:
	case <-time.After(10 * time.Second):
	}
}

// processedOrder returns the heights of the ProcessCoinbaseTx calls in order.
func (r *rig) processedOrder() []int {
	var out []int
	for _, c := range r.log.Calls() {
		if c.Kind == "ProcessCoinbaseTx" {
			r.w.mu.Lock()
			b := r.w.blocks[c.Block]
			r.w.mu.Unlock()
			if b == nil {
				out = append(out, -1)
			} else {
				out = append(out, b.height)
			}
		}
	}
	return out
}

const ruleRound = "a real headers.Repository (difficulty off) with a generated best chain of 0..40 blocks (each header's merkle root is the txid of its own coinbase, so the one-transaction block is valid) and optionally a lighter side branch; StartBlockHeight drawn from {1, mid, tip-1, tip, tip+1}; already-processed set drawn from {none, prefix from the start height, a gap pattern, the tip}; a real NodeManager + BlockManager (1 concurrent request, 2 ms delay) over a scripted block source whose per-request behaviour is drawn {serve, no node (bursts <= 12), peer drops mid-block, wrong block, and slow variants of serve/drop/wrong that keep the download active across several of the block manager's 2 ms request-delay ticks first}; ONE synchronisation round (verif hook VerifSynchronizeBlocks); oracle: the blocks handed to the processor (ProcessCoinbaseTx order) are exactly the best-chain blocks above the highest processed block reached walking down from the tip (or from the start height), in strictly ascending contiguous height order, each once, none below the start height, none already processed, none off the best chain; the first request for each block follows the same order; non-trivial = tip == start height, or a non-empty processed set, or a failure burst; distinct = (length, start class, processed pattern, fates)"

func TestProp_C05_round(t *testing.T) {
	col := evid.For("C05", "round", ruleRound)
	rapid.Check(t, func(t *rapid.T) {
		k := col.NewCase()
		ctx := vt.Ctx()
		w := newWorld()
		L := rapid.IntRange(0, 40).Draw(t, "length")
		chain := w.extend(t, genesis, 0, L, 0x1d00ffff) // chain[i] has height i+1
		if L >= 3 && rapid.Bool().Draw(t, "sideBranch") {
			f := rapid.IntRange(0, L-2).Draw(t, "forkHeight")
			parent := genesis
			if f > 0 {
				parent = chain[f-1].header
			}
			w.extend(t, parent, f, rapid.IntRange(1, L-f-1).Draw(t, "sideLen"), 0x1d00ffff)
		}
		startClass := rapid.SampledFrom([]string{"1", "mid", "tip-1", "tip", "tip+1", "1"}).Draw(t, "start")
		start := map[string]int{"0": 0, "mid": L / 2, "tip-1": L - 1, "tip": L, "tip+1": L + 1, "1": 1}[startClass]
		if start < 1 {
			start = 1 // the genesis block is not downloadable in this world (its coinbase is fixed)
		}
		var fates []string
		nf := rapid.IntRange(0, 4).Draw(t, "failures")
		for i := 0; i < nf; i++ {
			f := rapid.SampledFrom([]string{"nonode", "drop", "wrong", "slowdrop", "slowwrong", "slowserve"}).Draw(t, "fate")
			if f == "nonode" {
				for x := rapid.IntRange(0, 3).Draw(t, "burst"); x > 0; x-- {
					fates = append(fates, "nonode")
				}
			}
			fates = append(fates, f)
			for x := rapid.IntRange(0, 2).Draw(t, "servesBetween"); x > 0; x-- {
				fates = append(fates, "serve")
			}
		}
		r := newRig(w, start, fates)
		defer r.close()
		// processed set
		pattern := rapid.SampledFrom([]string{"none", "none", "prefix", "gap", "tip"}).Draw(t, "processed")
		processed := map[int]bool{}
		switch pattern {
		case "prefix":
			if L > start {
				upto := rapid.IntRange(start, L).Draw(t, "prefixTo")
				for h := max(start, 1); h <= upto; h++ {
					processed[h] = true
				}
			}
		case "gap":
			for h := max(start, 1); h <= L; h++ {
				if rapid.IntRange(0, 2).Draw(t, "gap") == 0 {
					processed[h] = true
				}
			}
		case "tip":
			if L >= 1 {
				processed[L] = true
			}
		}
		for h := range processed {
			r.log.MarkProcessed(chain[h-1].hash)
		}
		// expectation
		var want []int
		if L >= start && !(L >= 1 && processed[L]) && L >= 1 {
			lo := L
			for lo-1 >= 1 && lo > start && !processed[lo-1] {
				lo--
			}
			for h := lo; h <= L; h++ {
				want = append(want, h)
			}
		}
		if L == 0 && start == 0 {
			want = nil // only genesis: nothing above it... genesis itself is the tip
		}
		done := make(chan error, 1)
		go func() { done <- r.nm.VerifSynchronizeBlocks(ctx, r.stop) }()
		select {
		case err := <-done:
			if err != nil {
				t.Fatalf("synchronizeBlocks: %s", err)
			}
		case <-time.After(20 * time.Second):
			t.Fatalf("synchronisation round did not finish (length %d start %d processed %v fates %v)", L, start, keys(processed), fates)
		}
		got := r.processedOrder()
		desc := fmt.Sprintf("chain length %d, start height %d (%s), already processed %v, fates %v", L, start, startClass, keys(processed), fates)
		if L == 0 {
			// the tip is genesis: whether its block is fetched when the start height is 0 is not
			// covered by the statement ("blocks above ..."); nothing else may be processed
			for _, h := range got {
				if h != 0 && h != -1 {
					t.Fatalf("processed height %d on an empty chain", h)
				}
			}
		} else if fmt.Sprint(got) != fmt.Sprint(want) {
			t.Fatalf("blocks processed at heights %v, expected %v (%s)", got, want, desc)
		}
		for _, h := range got {
			if h != -1 && h < start {
				t.Fatalf("block at height %d processed below the start height %d (%s)", h, start, desc)
			}
			if processed[h] {
				t.Fatalf("already-processed block at height %d processed again (%s)", h, desc)
			}
		}
		// first request per block in the same order
		seen := map[model.Hash]bool{}
		var firstReq []int
		r.src.mu.Lock()
		for _, h := range r.src.requests {
			if !seen[h] {
				seen[h] = true
				w.mu.Lock()
				firstReq = append(firstReq, w.blocks[h].height)
				w.mu.Unlock()
			}
		}
		r.src.mu.Unlock()
		if L > 0 && fmt.Sprint(firstReq) != fmt.Sprint(want) {
			t.Fatalf("blocks requested in order %v, expected %v (%s)", firstReq, want, desc)
		}
		k.Op("L=%d start=%s processed=%s fates=%v", L, startClass, pattern, fates)
		k.Class("start_" + startClass)
		k.NonTrivial = (startClass == "tip" && L > 0) || len(processed) > 0 || nf > 0
		k.Done()
	})
}

func keys(m map[int]bool) []int {
	var r []int
	for k := range m {
		r = append(r, k)
	}
	for i := range r {
		for j := i + 1; j < len(r); j++ {
			if r[j] < r[i] {
				r[i], r[j] = r[j], r[i]
			}
		}
	}
	return r
}

func max(a, b int) int {
	if a > b {
		return a
	}
	return b
}

const ruleTrigger = "the production trigger path: startup delay ended through the verif hook, TriggerBlockSynchronize starts the round thread; while blocks are being fetched (the block source is held back) 1..3 batches of new best-chain headers arrive, each followed by another TriggerBlockSynchronize (restart flag); block-source failures drawn as in the round leg; oracle at quiescence: every best-chain block from the start height to the final tip was processed exactly once, in strictly ascending contiguous height order over all rounds, none below the start height; non-trivial = new headers arrived while a block request was pending; distinct = (initial length, start, batches, fates)"

func TestProp_C05_trigger(t *testing.T) {
	col := evid.For("C05", "trigger", ruleTrigger)
	rapid.Check(t, func(t *rapid.T) {
		k := col.NewCase()
		ctx := vt.Ctx()
		w := newWorld()
		L := rapid.IntRange(1, 12).Draw(t, "length")
		chain := w.extend(t, genesis, 0, L, 0x1d00ffff)
		start := rapid.IntRange(1, L).Draw(t, "start")
		var fates []string
		for i := rapid.IntRange(0, 3).Draw(t, "failures"); i > 0; i-- {
			fates = append(fates, rapid.SampledFrom(genFates).Draw(t, "fate"))
		}
		r := newRig(w, start, fates)
		defer r.close()
		hold := make(chan struct{})
		r.src.mu.Lock()
		r.src.hold = hold
		r.src.mu.Unlock()
		r.nm.VerifMarkStartupDelayComplete(ctx) // also triggers the first round
		batches := rapid.IntRange(1, 3).Draw(t, "batches")
		var sizes []int
		tip := chain[L-1]
		total := L
		for b := 0; b < batches; b++ {
			n := rapid.IntRange(1, 4).Draw(t, "batch")
			sizes = append(sizes, n)
			more := w.extend(t, tip.header, total, n, 0x1d00ffff)
			tip = more[len(more)-1]
			total += n
			r.nm.TriggerBlockSynchronize(ctx)
		}
		close(hold) // let the block source serve
		r.src.mu.Lock()
		r.src.hold = nil
		r.src.mu.Unlock()
		want := []int{}
		for h := max(start, 1); h <= total; h++ {
			want = append(want, h)
		}
		if start == 0 {
			// height 0 (genesis) has no block in this world; the walk stops at the start height
			want = want[:]
		}
		deadline := time.Now().Add(20 * time.Second)
		for {
			got := r.processedOrder()
			if len(got) >= len(want) {
				time.Sleep(5 * time.Millisecond)
				break
			}
			if time.Now().After(deadline) {
				t.Fatalf("synchronisation stalled: processed heights %v, expected %v (L=%d start=%d batches=%v fates=%v)", got, want, L, start, sizes, fates)
			}
			time.Sleep(300 * time.Microsecond)
		}
		r.nm.Stop(ctx)
		got := r.processedOrder()
		if start == 0 && len(got) > 0 && got[0] == -1 {
			got = got[1:] // the genesis block is not in this world
		}
		if fmt.Sprint(got) != fmt.Sprint(want) {
			t.Fatalf("blocks processed at heights %v over all rounds, expected %v (L=%d start=%d batches=%v fates=%v)", got, want, L, start, sizes, fates)
		}
		k.Op("L=%d start=%d batches=%v fates=%v", L, start, sizes, fates)
		k.NonTrivial = true
		k.Done()
	})
}

const ruleWaves = "the production trigger path with triggers spread over SUCCESSIVE rounds: startup delay ended through the verif hook; 1..4 waves, each: the block source holds the request for a drawn block of the round in progress (any block from the round's first to the tip that round walks to), and while it is pending 1..3 new best-chain headers arrive followed by TriggerBlockSynchronize, then the request is released - so the first wave's trigger falls into the first round, the second wave's into the follow-up round, the third into the round after that; block-source failures drawn as in the round leg; oracle at quiescence: every best-chain block from the start height to the final tip was processed exactly once in strictly ascending contiguous height order over all rounds (a lost trigger shows as a stall: bounded wait of 20 s); non-trivial = two or more waves; distinct = (initial length, start, wave sizes, hold heights, fates)"

func TestProp_C05_waves(t *testing.T) {
	col := evid.For("C05", "waves", ruleWaves)
	rapid.Check(t, func(t *rapid.T) {
		k := col.NewCase()
		ctx := vt.Ctx()
		w := newWorld()
		L := rapid.IntRange(1, 8).Draw(t, "length")
		chain := w.extend(t, genesis, 0, L, 0x1d00ffff)
		start := rapid.IntRange(1, L).Draw(t, "start")
		var fates []string
		for i := rapid.IntRange(0, 2).Draw(t, "failures"); i > 0; i-- {
			fates = append(fates, rapid.SampledFrom(genFates).Draw(t, "fate"))
		}
		r := newRig(w, start, fates)
		defer r.close()
		all := append([]*blk{}, chain...) // all[h-1] is the block at height h
		setHold := func(height int) (chan struct{}, chan struct{}) {
			h := all[height-1].header.Hash()
			ch, arrived := make(chan struct{}), make(chan struct{})
			r.src.mu.Lock()
			r.src.holdHash, r.src.holdCh, r.src.arrived = &h, ch, arrived
			r.src.mu.Unlock()
			return ch, arrived
		}
		waves := rapid.IntRange(1, 4).Draw(t, "waves")
		roundFirst := start // first block of the round in progress
		total := L
		holdAt := rapid.IntRange(roundFirst, total).Draw(t, "hold")
		release, arrived := setHold(holdAt)
		r.nm.VerifMarkStartupDelayComplete(ctx) // also triggers the first round
		var desc []string
		for wv := 0; wv < waves; wv++ {
			select {
			case <-arrived:
			case <-time.After(20 * time.Second):
				t.Fatalf("synchronisation stalled before wave %d: the request for height %d never came; processed %v (L=%d start=%d waves so far %v fates=%v)", wv+1, holdAt, r.processedOrder(), L, start, desc, fates)
			}
			n := rapid.IntRange(1, 3).Draw(t, "batch")
			more := w.extend(t, all[total-1].header, total, n, 0x1d00ffff)
			all = append(all, more...)
			roundFirst = total + 1 // the round in progress walks to the old tip; the next one starts above it
			total += n
			desc = append(desc, fmt.Sprintf("hold@%d+%d", holdAt, n))
			r.nm.TriggerBlockSynchronize(ctx)
			prevRelease := release
			if wv+1 < waves {
				holdAt = rapid.IntRange(roundFirst, total).Draw(t, "hold")
				release, arrived = setHold(holdAt)
			}
			close(prevRelease)
		}
		want := []int{}
		for h := start; h <= total; h++ {
			want = append(want, h)
		}
		deadline := time.Now().Add(20 * time.Second)
		for {
			got := r.processedOrder()
			if len(got) >= len(want) {
				time.Sleep(5 * time.Millisecond)
				break
			}
			if time.Now().After(deadline) {
				t.Fatalf("synchronisation stalled: processed heights %v, expected %v (L=%d start=%d waves=%v fates=%v)", got, want, L, start, desc, fates)
			}
			time.Sleep(300 * time.Microsecond)
		}
		r.nm.Stop(ctx)
		if got := r.processedOrder(); fmt.Sprint(got) != fmt.Sprint(want) {
			t.Fatalf("blocks processed at heights %v over all rounds, expected %v (L=%d start=%d waves=%v fates=%v)", got, want, L, start, desc, fates)
		}
		k.Op("L=%d start=%d waves=%v fates=%v", L, start, desc, fates)
		k.NonTrivial = waves >= 2
		k.Done()
	})
}

// TestRegr_C05_slow_abort: a pending block leaves the best chain and the abort takes longer than
// the reader's 10-second orphan check (the node is slow to answer the cancel; on an overloaded
// machine the same happened without any scripted delay): the second check found the block still
// orphaned and closed the abort channel again => "panic: close of closed channel" in the
// synchronisation goroutine (process exit). Repaired by "fix: abort an orphaned block only once".
func TestRegr_C05_slow_abort(t *testing.T) {
	t.Parallel()
	ctx := vt.Ctx()
	rt := fatal{t.Fatalf}
	_ = rt
	w := newWorld()
	var chain []*blk
	rapid.Check(t, func(q *rapid.T) { // (world helpers take a rapid.T; nothing is drawn here)
		if chain == nil {
			chain = w.extend(q, genesis, 0, 2, 0x1d00ffff)
		}
	})
	r := newRig(w, 1, nil)
	defer r.close()
	hold := make(chan struct{})
	r.src.mu.Lock()
	r.src.hold = hold
	r.src.cancelDelay = 12 * time.Second
	r.src.mu.Unlock()
	done := make(chan error, 1)
	go func() { done <- r.nm.VerifSynchronizeBlocks(ctx, r.stop) }()
	// wait for the request for block 1, then replace the whole chain by a heavier branch
	deadline := time.Now().Add(10 * time.Second)
	for {
		r.src.mu.Lock()
		n := len(r.src.requests)
		r.src.mu.Unlock()
		if n > 0 {
			break
		}
		if time.Now().After(deadline) {
			t.Fatalf("no block request")
		}
		time.Sleep(time.Millisecond)
	}
	rapid.Check(t, func(q *rapid.T) {
		if len(chain) == 2 {
			chain = append(chain, w.extend(q, genesis, 0, 3, 0x1c00ffff)...)
		}
	})
	select {
	case err := <-done:
		if err != nil {
			t.Fatalf("round: %s", err)
		}
	case <-time.After(40 * time.Second):
		t.Fatalf("the round did not end within 40 s after the pending block left the best chain")
	}
	close(hold)
	if got := r.processedOrder(); len(got) != 0 {
		t.Fatalf("orphaned block processed: %v", got)
	}
}

const ruleRecover = "the production trigger path as in the trigger leg, with the application's processed-block lookup (BlockTxManager.FetchBlockTxIDs) failing ONCE at a drawn call during the first round (the round ends with an error), block-source failures drawn as in the round leg; after the failure new best-chain headers arrive and TriggerBlockSynchronize is called again (1..3 times); oracle at quiescence: every best-chain block from the start height to the final tip was processed exactly once in strictly ascending contiguous order - a failed round must not prevent later rounds; non-trivial = the lookup failure hit (the first round ended early); distinct = (length, start, failing call, batches, fates)"

func TestProp_C05_recover(t *testing.T) {
	col := evid.For("C05", "recover", ruleRecover)
	rapid.Check(t, func(t *rapid.T) {
		k := col.NewCase()
		ctx := vt.Ctx()
		w := newWorld()
		L := rapid.IntRange(1, 10).Draw(t, "length")
		chain := w.extend(t, genesis, 0, L, 0x1d00ffff)
		start := rapid.IntRange(1, L).Draw(t, "start")
		var fates []string
		for i := rapid.IntRange(0, 2).Draw(t, "failures"); i > 0; i-- {
			fates = append(fates, rapid.SampledFrom(genFates).Draw(t, "fate"))
		}
		failAt := rapid.IntRange(1, 4).Draw(t, "lookupFailAt")
		r := newRigFlaky(w, start, fates, failAt)
		defer r.close()
		r.nm.VerifMarkStartupDelayComplete(ctx) // also triggers the first round
		// let the first round run into the failing lookup (or finish, when it needs fewer lookups)
		time.Sleep(time.Duration(rapid.IntRange(0, 20).Draw(t, "settleMs")) * time.Millisecond)
		batches := rapid.IntRange(1, 3).Draw(t, "batches")
		tip := chain[L-1]
		total := L
		var sizes []int
		for b := 0; b < batches; b++ {
			n := rapid.IntRange(1, 3).Draw(t, "batch")
			sizes = append(sizes, n)
			more := w.extend(t, tip.header, total, n, 0x1d00ffff)
			tip = more[len(more)-1]
			total += n
			time.Sleep(time.Duration(rapid.IntRange(0, 5).Draw(t, "gapMs")) * time.Millisecond)
			r.nm.TriggerBlockSynchronize(ctx)
		}
		var want []int
		for h := start; h <= total; h++ {
			want = append(want, h)
		}
		// The trigger that follows a failed round may itself arrive while that round is still
		// winding down; as the reader's own periodic/new-header triggers would, keep triggering
		// until quiescence.
		deadline := time.Now().Add(20 * time.Second)
		lastTrigger := time.Now()
		for {
			got := r.processedOrder()
			if len(got) >= len(want) {
				time.Sleep(5 * time.Millisecond)
				break
			}
			if time.Now().After(deadline) {
				t.Fatalf("synchronisation never resumed after the processed-block lookup failed once (call %d): processed heights %v, expected %v (L=%d start=%d batches=%v fates=%v)", failAt, got, want, L, start, sizes, fates)
			}
			if time.Since(lastTrigger) > 50*time.Millisecond {
				r.nm.TriggerBlockSynchronize(ctx)
				lastTrigger = time.Now()
			}
			time.Sleep(300 * time.Microsecond)
		}
		r.nm.Stop(ctx)
		got := r.processedOrder()
		if fmt.Sprint(got) != fmt.Sprint(want) {
			t.Fatalf("blocks processed at heights %v over all rounds, expected %v (L=%d start=%d lookup failure at call %d batches=%v fates=%v)", got, want, L, start, failAt, sizes, fates)
		}
		k.Op("L=%d start=%d failAt=%d batches=%v fates=%v", L, start, failAt, sizes, fates)
		k.NonTrivial = true
		k.Done()
	})
}

const ruleReorg = "a block request is kept pending (the block source is held back) while the header chain reorganises below it: already-processed prefix 1..j, pending block at height j+1, then a heavier branch forking at a drawn height <= j+... replaces the pending block; 16 generated scenarios run concurrently per case because each one has to sit through the reader's hard-coded 10-second orphan poll; oracle: the round ends within 3 polls (35 s) without processing the orphaned block, and the NEXT round processes the blocks of the new best chain above the last processed block in strictly ascending contiguous order; non-trivial = every scenario (a reorg hits a pending request); distinct = (length, processed prefix, fork height, new branch length)"

func TestProp_C05_reorg(t *testing.T) {
	col := evid.For("C05", "reorg", ruleReorg)
	rapid.Check(t, func(t *rapid.T) {
		type scen struct {
			L, j, fork, newLen int
		}
		var scens []scen
		for i := 0; i < 16; i++ {
			L := rapid.IntRange(2, 8).Draw(t, "length")
			j := rapid.IntRange(0, L-1).Draw(t, "processedPrefix")
			fork := rapid.IntRange(0, j).Draw(t, "forkHeight")
			scens = append(scens, scen{L, j, fork, rapid.IntRange(1, 4).Draw(t, "newLen")})
		}
		errs := make(chan string, len(scens))
		var wg sync.WaitGroup
		for _, sc := range scens {
			wg.Add(1)
			go func(sc scen) {
				defer wg.Done()
				fail := func(f string, a ...any) {
					errs <- fmt.Sprintf("[L=%d processed<=%d fork=%d new=%d] ", sc.L, sc.j, sc.fork, sc.newLen) + fmt.Sprintf(f, a...)
				}
				ctx := vt.Ctx()
				w := newWorld()
				ft := fatal{fail}
				chain := w.extend(ft, genesis, 0, sc.L, 0x1d00ffff)
				r := newRig(w, 1, nil)
				defer r.close()
				for h := 1; h <= sc.j; h++ {
					r.log.MarkProcessed(chain[h-1].hash)
				}
				hold := make(chan struct{})
				r.src.mu.Lock()
				r.src.hold = hold
				r.src.mu.Unlock()
				done := make(chan error, 1)
				go func() { done <- r.nm.VerifSynchronizeBlocks(ctx, r.stop) }()
				// wait until the pending block has been requested
				deadline := time.Now().Add(10 * time.Second)
				for {
					r.src.mu.Lock()
					n := len(r.src.requests)
					r.src.mu.Unlock()
					if n > 0 {
						break
					}
					if time.Now().After(deadline) {
						fail("no block was requested")
						return
					}
					time.Sleep(time.Millisecond)
				}
				// reorganise: heavier branch from height fork
				parent := genesis
				if sc.fork > 0 {
					parent = chain[sc.fork-1].header
				}
				nb := w.extend(ft, parent, sc.fork, sc.newLen, 0x1b00ffff)
				if got := model.Hash(w.repo.LastHash()); got != nb[len(nb)-1].hash {
					fail("setup: the heavier branch did not become the best chain")
					return
				}
				select {
				case err := <-done:
					if err != nil {
						fail("round ended with %s", err)
						return
					}
				case <-time.After(35 * time.Second):
					fail("the round did not end within 3 orphan polls after the pending block at height %d left the best chain", sc.j+1)
					return
				}
				close(hold)
				r.src.mu.Lock()
				r.src.hold = nil
				r.src.mu.Unlock()
				if got := r.processedOrder(); len(got) != 0 {
					fail("blocks processed during the orphaned round: %v", got)
					return
				}
				// next round continues on the new best chain
				go func() { done <- r.nm.VerifSynchronizeBlocks(ctx, r.stop) }()
				select {
				case err := <-done:
					if err != nil {
						fail("second round ended with %s", err)
						return
					}
				case <-time.After(35 * time.Second):
					fail("the second round did not finish")
					return
				}
				var want []int
				for h := sc.fork + 1; h <= sc.fork+sc.newLen; h++ {
					want = append(want, h)
				}
				// blocks of the new chain (heights fork+1..) above the last processed block that is
				// still on the best chain (heights <= fork are shared)
				got := r.processedOrder()
				var gotHashesOK = true
				for i, c := range filterCoinbase(r.log.Calls()) {
					if i < len(nb) && c.Block != nb[i].hash {
						gotHashesOK = false
					}
				}
				if fmt.Sprint(got) != fmt.Sprint(want) || !gotHashesOK {
					fail("second round processed heights %v (new-branch blocks in order: %v), expected the new best chain's heights %v", got, gotHashesOK, want)
				}
			}(sc)
		}
		wg.Wait()
		close(errs)
		for e := range errs {
			t.Fatalf("%s", e)
		}
		for _, sc := range scens {
			k := col.NewCase()
			k.Op("L=%d j=%d fork=%d new=%d", sc.L, sc.j, sc.fork, sc.newLen)
			k.NonTrivial = true
			k.Done()
		}
	})
}

type fatal struct{ f func(string, ...any) }

func (f fatal) Fatalf(s string, a ...any) { f.f(s, a...) }

func filterCoinbase(calls []spy.Call) []spy.Call {
	var r []spy.Call
	for _, c := range calls {
		if c.Kind == "ProcessCoinbaseTx" {
			r = append(r, c)
		}
	}
	return r
}

const ruleRounds = "several synchronisation rounds in ONE process interleaved with chain changes: extend the best chain, reorganise to a longer branch forking at a drawn height (also BELOW blocks that earlier rounds already processed), run a round to completion (verif hook), block-source failures as in the round leg; oracle after every round: the blocks processed in that round are exactly the best-chain blocks above the most recent block ON THE CURRENT BEST CHAIN that an earlier round processed (or from the start height), ascending and contiguous, each once, and a block processed in an earlier round is never processed again; non-trivial = a round after a reorganisation that replaced already-processed blocks; distinct = hash of the operation list"

func TestProp_C05_rounds(t *testing.T) {
	col := evid.For("C05", "rounds", ruleRounds)
	rapid.Check(t, func(t *rapid.T) {
		k := col.NewCase()
		ctx := vt.Ctx()
		w := newWorld()
		best := w.extend(t, genesis, 0, rapid.IntRange(1, 6).Draw(t, "initial"), 0x1d00ffff) // best[i] has height i+1
		start := rapid.IntRange(1, 3).Draw(t, "start")
		r := newRig(w, start, nil)
		defer r.close()
		processedBefore := 0
		reorgBelowProcessed := false
		nontrivial := false
		t.Repeat(map[string]func(*rapid.T){
			"extend": func(t *rapid.T) {
				n := rapid.IntRange(1, 4).Draw(t, "n")
				tip := best[len(best)-1]
				best = append(best, w.extend(t, tip.header, tip.height, n, 0x1d00ffff)...)
				k.Op("extend +%d", n)
			},
			"reorg": func(t *rapid.T) {
				f := rapid.IntRange(max(0, len(best)-100), len(best)-1).Draw(t, "forkHeight") // within MaxBranchDepth 144
				n := len(best) - f + 1 + rapid.IntRange(0, 2).Draw(t, "extra")
				parent := genesis
				if f > 0 {
					parent = best[f-1].header
				}
				for h := f + 1; h <= len(best); h++ {
					if r.log.Processed(best[h-1].hash) {
						reorgBelowProcessed = true
					}
				}
				nb := w.extend(t, parent, f, n, 0x1d00ffff)
				best = append(append([]*blk(nil), best[:f]...), nb...)
				if got := model.Hash(w.repo.LastHash()); got != best[len(best)-1].hash {
					t.Fatalf("setup: reorganisation did not take (fork %d, new length %d)", f, n)
				}
				k.Op("reorg fork=%d len=%d", f, n)
			},
			"round": func(t *rapid.T) {
				var fates []string
				for i := rapid.IntRange(0, 2).Draw(t, "failures"); i > 0; i-- {
					fates = append(fates, rapid.SampledFrom([]string{"nonode", "drop", "wrong", "slowdrop", "slowwrong", "slowserve"}).Draw(t, "fate"))
				}
				r.src.mu.Lock()
				r.src.fates = fates
				r.src.mu.Unlock()
				// expectation
				var want []int
				T := len(best)
				if T >= start && !r.log.Processed(best[T-1].hash) {
					lo := T
					for lo > start && !r.log.Processed(best[lo-2].hash) {
						lo--
					}
					for h := lo; h <= T; h++ {
						want = append(want, h)
					}
				}
				done := make(chan error, 1)
				go func() { done <- r.nm.VerifSynchronizeBlocks(ctx, r.stop) }()
				select {
				case err := <-done:
					if err != nil {
						t.Fatalf("round: %s", err)
					}
				case <-time.After(20 * time.Second):
					t.Fatalf("round did not finish (want %v)", want)
				}
				calls := filterCoinbase(r.log.Calls())
				var got []int
				for _, c := range calls[processedBefore:] {
					w.mu.Lock()
					b := w.blocks[c.Block]
					w.mu.Unlock()
					onBest := b != nil && b.height <= len(best) && best[b.height-1].hash == b.hash
					if !onBest {
						t.Fatalf("round processed a block that is not on the best chain (height %v)", b)
					}
					got = append(got, b.height)
				}
				seen := map[model.Hash]bool{}
				for _, c := range calls {
					if seen[c.Block] {
						// schedule dependent: rapid cannot replay it, so the history is printed here
						var trace []string
						for _, x := range r.log.Calls() {
							w.mu.Lock()
							b := w.blocks[x.Block]
							w.mu.Unlock()
							h := -1
							if b != nil {
								h = b.height
							}
							trace = append(trace, fmt.Sprintf("%s@%d:%s", x.Kind, h, x.Block.String()[:6]))
						}
						r.src.mu.Lock()
						var reqs []string
						for _, h := range r.src.requests {
							w.mu.Lock()
							b := w.blocks[h]
							w.mu.Unlock()
							reqs = append(reqs, fmt.Sprintf("%d:%s", b.height, h.String()[:6]))
						}
						for i := range reqs {
							if i < len(r.src.fateLog) {
								reqs[i] += "/" + r.src.fateLog[i]
							}
						}
						r.src.mu.Unlock()
						t.Fatalf("block %s processed twice over the rounds (this round's fates %v); store/processor calls in order: %v; block requests in order: %v", c.Block.String()[:6], fates, trace, reqs)
					}
					seen[c.Block] = true
				}
				if fmt.Sprint(got) != fmt.Sprint(want) {
					t.Fatalf("round processed heights %v, expected %v (best chain length %d, start %d, reorg below processed blocks earlier: %v)", got, want, len(best), start, reorgBelowProcessed)
				}
				processedBefore = len(calls)
				if reorgBelowProcessed && len(want) > 0 {
					nontrivial = true
				}
				k.Op("round -> %v", got)
			},
		})
		k.NonTrivial = nontrivial
		k.Done()
	})
}

package syncp

import (
	"fmt"
	"os"
	"testing"
	"time"

	"verifharness/internal/vt"

	"pgregory.net/rapid"
)

// TestStress_C05_duplicate: rounds with [drop wrong] fates, looking for a block processed twice.
func TestStress_C05_duplicate(t *testing.T) {
	if os.Getenv("VERIF_STRESS") == "" {
		t.Skip("stress only")
	}
	ctx := vt.Ctx()
	for it := 0; it < 4000; it++ {
		var fail string
		rapid.Check(t, func(rt *rapid.T) {
			w := newWorld()
			w.extend(rt, genesis, 0, 12, 0x1d00ffff)
			r := newRig(w, 1, []string{"drop", "wrong"})
			done := make(chan error, 1)
			go func() { done <- r.nm.VerifSynchronizeBlocks(ctx, r.stop) }()
			select {
			case <-done:
			case <-time.After(20 * time.Second):
				fail = "round did not finish"
			}
			got := r.processedOrder()
			if fmt.Sprint(got) != "[1 2 3 4 5 6 7 8 9 10 11 12]" {
				r.src.mu.Lock()
				fail = fmt.Sprintf("processed %v requests %d fatesLog %v", got, len(r.src.requests), r.src.fateLog)
				r.src.mu.Unlock()
			}
			r.close()
		})
		if fail != "" {
			t.Fatalf("iteration %d: %s", it, fail)
		}
	}
}

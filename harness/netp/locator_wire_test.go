package netp

import (
	"bytes"
	"encoding/binary"
	"fmt"
	"testing"
	"time"

	"verifharness/internal/evid"
	"verifharness/internal/memstore"
	"verifharness/internal/model"
	"verifharness/internal/p2p"
	"verifharness/internal/vt"

	"github.com/tokenized/bitcoin_reader/headers"
	"github.com/tokenized/pkg/bitcoin"
	"github.com/tokenized/pkg/wire"
	"pgregory.net/rapid"
)

// ---------------------------------------------------------------------------------------------
// C19, wire leg: the locators a real node puts on the wire.

const ruleC19wire = "a header repository is filled with a straight chain of a drawn length (0..60, or one of 100, 600, 2556..2600, 3000 so that the back-off reaches the requested maximum of 10) with 0..3 side branches forking inside it and, in half of the cases, synthetic split tables installed on that chain (verif hook VerifSetSplits; the peer then verifies with the chain's own header at the required split); a real BitcoinNode (full or verify-only) is run over loopback TCP against a scripted peer that completes handshake and verification; every getheaders the peer receives is decoded - the verification request, the initial request sent on acceptance (maximum 10), one sent by RequestHeaders (maximum 3), and a second RequestHeaders after the peer extended our chain by 1..3 headers; in half of the cases everything the scripted peer writes is cut into pieces of 1..100 bytes over the first 160 bytes of each send (TCP segmentation at arbitrary offsets); oracle: the stop hash is zero; the verification locator equals GetVerifyOnlyLocatorHashes and the others equal GetLocatorHashes(max) of the repository at that moment, hash for hash in order; no hash twice; the first best-chain hash is the parent of our tip (genesis at height 0); and a simulated same-chain peer answering per protocol (first locator hash in wire order that is on its chain, reply from the next height) starts its reply exactly at our tip (at height 1 when we only have genesis); non-trivial = repository locator longer than the requested maximum (side-branch base or split fork point added) or chain of >= 17 headers; distinct = (node kind, chain length, side branches, splits flag, extension)"

type wireLocator struct {
	hashes []model.Hash
	stop   model.Hash
}

func parseGetHeaders(f p2p.Frame) (wireLocator, error) {
	var w wireLocator
	r := bytes.NewReader(f.Payload)
	var ver uint32
	if err := binary.Read(r, binary.LittleEndian, &ver); err != nil {
		return w, err
	}
	n, err := wire.ReadVarInt(r, wire.ProtocolVersion)
	if err != nil {
		return w, err
	}
	if n > 1000 {
		return w, fmt.Errorf("locator of %d hashes", n)
	}
	for i := uint64(0); i < n; i++ {
		var h model.Hash
		if _, err := r.Read(h[:]); err != nil {
			return w, err
		}
		w.hashes = append(w.hashes, h)
	}
	if m, err := r.Read(w.stop[:]); err != nil || m != 32 {
		return w, fmt.Errorf("stop hash: %d bytes, %v", m, err)
	}
	if r.Len() != 0 {
		return w, fmt.Errorf("%d trailing bytes", r.Len())
	}
	return w, nil
}

func getHeadersFrames(p *p2p.Peer) []p2p.Frame {
	var r []p2p.Frame
	for _, f := range p.Received() {
		if f.Command == "getheaders" {
			r = append(r, f)
		}
	}
	return r
}

func rawToWire(r *model.RawHeader) *wire.BlockHeader {
	return &wire.BlockHeader{Version: r.Version, PrevBlock: bitcoin.Hash32(r.Prev), MerkleRoot: bitcoin.Hash32(r.Merkle),
		Timestamp: r.Timestamp, Bits: r.Bits, Nonce: r.Nonce}
}

func TestProp_C19_wire(t *testing.T) {
	col := evid.For("C19", "wire", ruleC19wire)
	genesis := model.Hash(h32("000000000019d6689c085ae165831e934ff763ae46a2a6c172b3f1b60a8ce26f"))
	rapid.Check(t, func(t *rapid.T) {
		k := col.NewCase()
		ctx := vt.Ctx()
		verifyOnly := rapid.IntRange(0, 4).Draw(t, "verifyOnly") == 0
		var L int
		if rapid.IntRange(0, 3).Draw(t, "long") == 0 {
			L = rapid.SampledFrom([]int{100, 600, 2556, 2557, 2558, 2600, 3000}).Draw(t, "L")
		} else {
			L = rapid.IntRange(0, 60).Draw(t, "L")
		}
		repo := headers.NewRepository(headers.DefaultConfig(), memstore.New())
		repo.DisableDifficulty()
		repo.InitializeWithGenesis()

		// main chain
		main := []model.Hash{genesis}
		raws := []model.RawHeader{{}}
		height := map[model.Hash]int{genesis: 0}
		ts := uint32(1231006505)
		mk := func(prev model.Hash, salt uint32, i int) model.RawHeader {
			h := model.RawHeader{Version: 1, Prev: prev, Timestamp: ts + uint32(600*i), Bits: 0x1d00ffff, Nonce: salt}
			h.Merkle[0] = byte(salt)
			h.Merkle[1] = byte(i)
			h.Merkle[2] = byte(i >> 8)
			return h
		}
		add := func(r model.RawHeader, what string) {
			if err := repo.ProcessHeader(ctx, rawToWire(&r)); err != nil {
				t.Fatalf("setup: %s refused: %s", what, err)
			}
		}
		for i := 1; i <= L; i++ {
			r := mk(main[i-1], 1, i)
			add(r, fmt.Sprintf("main %d", i))
			raws = append(raws, r)
			main = append(main, r.Hash())
			height[r.Hash()] = i
		}
		// side branches that never overtake
		nside := 0
		if L >= 2 {
			nside = rapid.IntRange(0, 3).Draw(t, "sides")
		}
		sideDesc := ""
		for s := 0; s < nside; s++ {
			lo := L - 100
			if lo < 0 {
				lo = 0
			}
			f := rapid.IntRange(lo, L-1).Draw(t, fmt.Sprintf("fork%d", s))
			maxLen := L - f
			if maxLen > 3 {
				maxLen = 3
			}
			n := rapid.IntRange(1, maxLen).Draw(t, fmt.Sprintf("sidelen%d", s))
			prev := main[f]
			for j := 1; j <= n; j++ {
				r := mk(prev, uint32(10+s), f+j)
				add(r, fmt.Sprintf("side %d header %d", s, j))
				prev = r.Hash()
			}
			sideDesc += fmt.Sprintf(" %d+%d", f, n)
		}
		if got := repo.Height(); got != L {
			t.Fatalf("setup: repository height %d, expected %d", got, L)
		}

		// synthetic splits on our chain
		useSplits := L >= 4 && rapid.Bool().Draw(t, "splits")
		verifyWith := bsvHeader()
		if useSplits {
			s1 := rapid.IntRange(1, L-2).Draw(t, "s1")
			s2 := rapid.IntRange(s1+1, L).Draw(t, "s2")
			var fake1, fake2 bitcoin.Hash32
			fake1[0], fake2[0] = 0xF1, 0xF2
			splits := headers.Splits{
				{Name: "F2", BeforeHash: bitcoin.Hash32(main[s2-1]), AfterHash: fake2, Height: s2},
				{Name: "F1", BeforeHash: bitcoin.Hash32(main[s1-1]), AfterHash: fake1, Height: s1},
			}
			required := &headers.Split{Name: "OURS", BeforeHash: bitcoin.Hash32(main[s2-1]), AfterHash: bitcoin.Hash32(main[s2]), Height: s2}
			repo.VerifSetSplits(splits, required)
			verifyWith = raws[s2]
			k.Class("splits")
		}

		s := Start(t, Opts{VerifyOnly: verifyOnly, Headers: &spyHeaders{Repository: repo}, Fragment: genFragment(t)})
		defer s.Finish(bound)
		s.Handshake(t)

		nontrivial := L >= 17
		check := func(f p2p.Frame, what string, max int, tipHeight int) {
			w, err := parseGetHeaders(f)
			if err != nil {
				t.Fatalf("%s: undecodable getheaders: %s", what, err)
			}
			if w.stop != (model.Hash{}) {
				t.Fatalf("%s: stop hash %s, expected zero", what, w.stop)
			}
			var want []bitcoin.Hash32
			if max == 0 {
				want, err = repo.GetVerifyOnlyLocatorHashes(ctx)
			} else {
				want, err = repo.GetLocatorHashes(ctx, max)
			}
			if err != nil {
				t.Fatalf("%s: repository locator: %s", what, err)
			}
			if max > 0 && len(want) > max {
				nontrivial = true
			}
			desc := func() string {
				r := ""
				for _, h := range w.hashes {
					if ht, ok := height[h]; ok {
						r += fmt.Sprintf(" %d", ht)
					} else {
						r += " side"
					}
				}
				return r
			}
			if len(w.hashes) != len(want) {
				t.Fatalf("%s (tip %d): %d hashes on the wire [%s ], the repository's locator has %d", what, tipHeight, len(w.hashes), desc(), len(want))
			}
			seen := map[model.Hash]bool{}
			for i, h := range w.hashes {
				if h != model.Hash(want[i]) {
					t.Fatalf("%s (tip %d): wire locator [%s ] differs from the repository's at position %d", what, tipHeight, desc(), i)
				}
				if seen[h] {
					t.Fatalf("%s: hash at position %d appears twice [%s ]", what, i, desc())
				}
				seen[h] = true
			}
			if max == 0 {
				return
			}
			if len(w.hashes) == 0 {
				t.Fatalf("%s: empty locator", what)
			}
			parent := 0
			if tipHeight > 0 {
				parent = tipHeight - 1
			}
			for _, h := range w.hashes {
				if _, onBest := height[h]; !onBest {
					continue // first header of a side branch
				}
				if h != main[parent] {
					t.Fatalf("%s (tip %d): the best-chain hashes of the locator [%s ] do not begin with the parent of our tip", what, tipHeight, desc())
				}
				break
			}
			// same-chain peer per protocol
			start := -1
			for _, h := range w.hashes {
				if ht, ok := height[h]; ok {
					start = ht + 1
					break
				}
			}
			wantStart := tipHeight
			if tipHeight == 0 {
				wantStart = 1
			}
			if start != wantStart {
				t.Fatalf("%s (tip %d): a same-chain peer would start its reply at height %d, locator [%s ]", what, tipHeight, start, desc())
			}
		}

		gh := getHeadersFrames(s.Peer)
		if len(gh) != 1 {
			t.Fatalf("expected exactly the verification getheaders after the handshake, got %d", len(gh))
		}
		check(gh[0], "verification request", 0, L)

		s.Peer.Send(p2p.Headers([]model.RawHeader{verifyWith}))
		ext := 0
		if verifyOnly {
			if !s.Peer.WaitClosed(closeBound) {
				t.Fatalf("verify-only node did not disconnect after verification")
			}
			if n := len(getHeadersFrames(s.Peer)); n != 1 {
				t.Fatalf("verify-only node sent %d getheaders", n)
			}
		} else {
			if !s.Peer.WaitCommand("addr", 1, stageTimeout) {
				t.Fatalf("setup: node did not finish its acceptance messages (received %v)", cmds(s.Peer.Received()))
			}
			gh = getHeadersFrames(s.Peer)
			if len(gh) != 2 {
				t.Fatalf("expected the initial getheaders on acceptance, got %d getheaders", len(gh))
			}
			check(gh[1], "initial request (max 10)", 10, L)

			if err := s.Node.RequestHeaders(ctx); err != nil {
				t.Fatalf("RequestHeaders: %s", err)
			}
			if !s.Peer.WaitCommand("getheaders", 3, stageTimeout) {
				t.Fatalf("RequestHeaders put nothing on the wire")
			}
			check(getHeadersFrames(s.Peer)[2], "RequestHeaders (max 3)", 3, L)

			// the peer extends our chain, then another request
			ext = rapid.IntRange(0, 3).Draw(t, "ext")
			if ext > 0 {
				var hs []model.RawHeader
				for j := 1; j <= ext; j++ {
					r := mk(main[L+j-1], 1, L+j)
					hs = append(hs, r)
					main = append(main, r.Hash())
					height[r.Hash()] = L + j
				}
				s.Peer.Send(p2p.Headers(hs))
				deadline := time.Now().Add(stageTimeout)
				for repo.Height() != L+ext {
					if time.Now().After(deadline) {
						t.Fatalf("setup: node did not take the peer's %d extension headers (height %d)", ext, repo.Height())
					}
					time.Sleep(time.Millisecond)
				}
				before := len(getHeadersFrames(s.Peer))
				if err := s.Node.RequestHeaders(ctx); err != nil {
					t.Fatalf("RequestHeaders: %s", err)
				}
				if !s.Peer.WaitCommand("getheaders", before+1, stageTimeout) {
					t.Fatalf("second RequestHeaders put nothing on the wire")
				}
				all := getHeadersFrames(s.Peer)
				check(all[len(all)-1], "RequestHeaders after extension (max 3)", 3, L+ext)
			}
		}
		k.Op("verifyOnly=%v L=%d sides=[%s ] splits=%v ext=%d", verifyOnly, L, sideDesc, useSplits, ext)
		k.NonTrivial = nontrivial
		k.Done()
	})
}

// TestRegr_C19_split_label: found by the wire leg (seed 3): chain of 3000 headers, three side
// branches, synthetic splits whose first headers are at heights 2998 and 2999 (tip = split height
// + 1). Branch.GetLocatorHashes listed a split's fork point under the height of the header AFTER
// the split, so the fork point 2998 and the tip's parent 2999 carried the same height and the
// repository's sort (unstable above 12 entries) put 2998 first: the locator no longer began with
// the parent of the tip. Repaired by "fix: label a split's fork point with its own height in the
// branch locator".
func TestRegr_C19_split_label(t *testing.T) {
	ctx := vt.Ctx()
	genesis := model.Hash(h32("000000000019d6689c085ae165831e934ff763ae46a2a6c172b3f1b60a8ce26f"))
	for _, L := range []int{2600, 3000} {
		repo := headers.NewRepository(headers.DefaultConfig(), memstore.New())
		repo.DisableDifficulty()
		repo.InitializeWithGenesis()
		main := []model.Hash{genesis}
		mk := func(prev model.Hash, salt uint32, i int) model.RawHeader {
			h := model.RawHeader{Version: 1, Prev: prev, Timestamp: 1231006505 + uint32(600*i), Bits: 0x1d00ffff, Nonce: salt}
			h.Merkle[0], h.Merkle[1], h.Merkle[2] = byte(salt), byte(i), byte(i>>8)
			return h
		}
		for i := 1; i <= L; i++ {
			r := mk(main[i-1], 1, i)
			if err := repo.ProcessHeader(ctx, rawToWire(&r)); err != nil {
				t.Fatalf("main %d: %s", i, err)
			}
			main = append(main, r.Hash())
		}
		for s, f := range []int{L - 100, L - 100, L - 76} {
			r := mk(main[f], uint32(10+s), f+1)
			if err := repo.ProcessHeader(ctx, rawToWire(&r)); err != nil {
				t.Fatalf("side %d: %s", s, err)
			}
		}
		s1, s2 := L-2, L-1
		var fake1, fake2 bitcoin.Hash32
		fake1[0], fake2[0] = 0xF1, 0xF2
		repo.VerifSetSplits(headers.Splits{
			{Name: "F2", BeforeHash: bitcoin.Hash32(main[s2-1]), AfterHash: fake2, Height: s2},
			{Name: "F1", BeforeHash: bitcoin.Hash32(main[s1-1]), AfterHash: fake1, Height: s1},
		}, &headers.Split{Name: "OURS", BeforeHash: bitcoin.Hash32(main[s2-1]), AfterHash: bitcoin.Hash32(main[s2]), Height: s2})
		for _, max := range []int{3, 10, 50} {
			loc, err := repo.GetLocatorHashes(ctx, max)
			if err != nil {
				t.Fatalf("GetLocatorHashes: %s", err)
			}
			if len(loc) == 0 || model.Hash(loc[0]) != main[L-1] {
				t.Fatalf("L=%d max=%d: the locator (%d hashes) does not begin with the parent of the tip", L, max, len(loc))
			}
		}
	}
}

package netp

import (
	"bytes"
	"context"
	"encoding/binary"
	"fmt"
	"os"
	"strings"
	"testing"
	"time"

	"verifharness/internal/evid"
	"verifharness/internal/model"
	"verifharness/internal/p2p"
	"verifharness/internal/spy"
	"verifharness/internal/vt"

	bitcoin_reader "github.com/tokenized/bitcoin_reader"
	"github.com/tokenized/pkg/bitcoin"
	"github.com/tokenized/pkg/wire"
	"pgregory.net/rapid"
)

// wellFormed is one protocol-conformant frame with the model's prediction.
type wellFormed struct {
	kind     string
	frames   []p2p.Frame
	mayClose bool // the protocol itself defines this frame as fatal for the connection
	big      bool
}

type framingState struct {
	s          *Session
	t          *rapid.T
	protoconfs int
	chainTip   model.RawHeader // last header the session's repository accepted from us
	seq        uint32
	hasTxm     bool
	nodePing   []byte // nonce of the ping the node sent us (for a correct pong)
	requested  *model.RawHeader
	blockTxs   []*wire.MsgTx
	versions   int
}

func sizeClass(t *rapid.T) int {
	switch rapid.IntRange(0, 9).Draw(t, "sizeClass") {
	case 0:
		return 0
	case 1:
		return 1
	case 2:
		return rapid.SampledFrom([]int{1023, 1024, 1025, 2047, 2048, 2049}).Draw(t, "boundary")
	case 3:
		return rapid.IntRange(64<<10, 300<<10).Draw(t, "large")
	case 4:
		if rapid.IntRange(0, 3).Draw(t, "huge") == 0 {
			return rapid.IntRange(1<<20, 4<<20).Draw(t, "MB")
		}
		return rapid.IntRange(2000, 70000).Draw(t, "mid")
	}
	return rapid.IntRange(2, 600).Draw(t, "small")
}

func (fs *framingState) next(t *rapid.T) wellFormed {
	fs.seq++
	kinds := []string{"ping", "pong-right", "pong-wrong", "version", "verack", "protoconf", "headers-empty", "headers-ok", "headers-ok", "headers-refused",
		"inv", "inv", "inv-blocks", "addr", "getaddr", "reject", "unknown", "unknown", "unknown", "tx", "tx", "ext-tx", "block-unrequested", "ext-block-unrequested",
		"block-requested", "block-requested", "block-wrong", "ext-unknown", "ext-other", "sendheaders", "getheaders", "notfound", "mempool", "feefilter"}
	kind := rapid.SampledFrom(kinds).Draw(t, "kind")
	w := wellFormed{kind: kind}
	switch kind {
	case "ping":
		w.frames = []p2p.Frame{p2p.Ping(uint64(fs.seq) << 8)}
	case "pong-right":
		if fs.nodePing == nil {
			w.kind = "ping"
			w.frames = []p2p.Frame{p2p.Ping(uint64(fs.seq) << 8)}
			break
		}
		w.frames = []p2p.Frame{{Command: "pong", Payload: fs.nodePing}}
	case "pong-wrong":
		w.frames = []p2p.Frame{p2p.Pong(0xBAD0000 + uint64(fs.seq))}
		w.mayClose = true
	case "version":
		w.frames = []p2p.Frame{p2p.Version(int32(fs.seq))}
		fs.versions++
	case "verack":
		w.frames = []p2p.Frame{p2p.Verack()}
		fs.versions++
	case "protoconf":
		fs.protoconfs++
		w.frames = []p2p.Frame{p2p.Protoconf()}
		w.mayClose = fs.protoconfs > 1
	case "headers-empty":
		w.frames = []p2p.Frame{p2p.Headers(nil)}
	case "headers-ok":
		n := rapid.SampledFrom([]int{1, 1, 2, 5, 40, 2000}).Draw(t, "nh")
		var hs []model.RawHeader
		for i := 0; i < n; i++ {
			h := model.RawHeader{Version: 1, Prev: fs.chainTip.Hash(), Timestamp: fs.chainTip.Timestamp + 600, Bits: 0x1d00ffff, Nonce: fs.seq<<12 + uint32(i)}
			h.Merkle[0] = 0x14
			hs = append(hs, h)
			fs.chainTip = h
		}
		w.frames = []p2p.Frame{p2p.Headers(hs)}
		w.big = n >= 2000
	case "headers-refused":
		var h model.RawHeader
		h.Prev[0], h.Prev[1] = 0xDE, byte(fs.seq)
		h.Bits = 0x1d00ffff
		w.frames = []p2p.Frame{p2p.Headers([]model.RawHeader{h})}
		w.mayClose = true
	case "inv", "inv-blocks":
		n := rapid.SampledFrom([]int{0, 1, 3, 100, 5000}).Draw(t, "ninv")
		ids := make([]model.Hash, n)
		for i := range ids {
			binary.LittleEndian.PutUint32(ids[i][:], fs.seq<<16+uint32(i))
			ids[i][31] = 0x1A
		}
		typ := uint32(1)
		if kind == "inv-blocks" {
			typ = 2
		}
		w.frames = []p2p.Frame{p2p.Inv(typ, ids)}
		w.big = n >= 5000
	case "addr":
		w.frames = []p2p.Frame{p2p.Addr(rapid.SampledFrom([]int{0, 1, 10, 1000}).Draw(t, "naddr"))}
	case "getaddr":
		w.frames = []p2p.Frame{p2p.GetAddr()}
	case "reject":
		var buf bytes.Buffer
		cmd := rapid.SampledFrom([]string{"tx", "block", "version", "getheaders", "getdata", "ping", "zzz"}).Draw(t, "rejcmd")
		buf.Write(p2p.VarInt(uint64(len(cmd))))
		buf.WriteString(cmd)
		buf.WriteByte(rapid.SampledFrom([]byte{0x01, 0x10, 0x11, 0x12, 0x40, 0x43}).Draw(t, "rejcode"))
		buf.Write(p2p.VarInt(3))
		buf.WriteString("bad")
		if cmd == "tx" || cmd == "block" {
			buf.Write(make([]byte, 32))
		}
		w.frames = []p2p.Frame{{Command: "reject", Payload: buf.Bytes()}}
	case "unknown", "sendheaders", "getheaders", "notfound", "mempool", "feefilter":
		cmd := kind
		if kind == "unknown" {
			cmd = rapid.SampledFrom([]string{"zzz", "x", "abcdefghijkl", "sendcmpct", "authch"}).Draw(t, "cmd")
		}
		n := sizeClass(t)
		w.frames = []p2p.Frame{{Command: cmd, Payload: bytes.Repeat([]byte{byte(fs.seq)}, n)}}
		w.big = n >= 64<<10
	case "tx", "ext-tx":
		n := sizeClass(t)
		tx := p2p.Tx(fs.seq<<8, n)
		w.frames = []p2p.Frame{p2p.TxFrame(tx, kind == "ext-tx")}
		w.big = n >= 64<<10
	case "block-unrequested", "ext-block-unrequested", "block-wrong":
		ntx := rapid.IntRange(1, 6).Draw(t, "ntx")
		txs := make([]*wire.MsgTx, ntx)
		for i := range txs {
			txs[i] = p2p.Tx(fs.seq<<8+uint32(i), sizeClass(t)%5000)
		}
		h := model.RawHeader{Version: 1, Bits: 0x1d00ffff, Nonce: fs.seq}
		h.Prev[0] = 0xB1
		w.frames = []p2p.Frame{p2p.Block(h, txs, uint64(ntx), kind == "ext-block-unrequested")}
		if kind == "block-wrong" {
			w.frames = append([]p2p.Frame{}, w.frames...)
		}
	case "block-requested":
		// handled by the caller (needs RequestBlock on the node first)
	case "ext-unknown":
		n := sizeClass(t)
		w.frames = []p2p.Frame{{Command: "weird", Payload: bytes.Repeat([]byte{7}, n), Extended: true}}
		w.big = n >= 64<<10
	case "ext-other": // a classic command in extended framing
		w.frames = []p2p.Frame{{Command: "ping", Payload: p2p.Ping(1).Payload, Extended: true}}
	}
	return w
}

const ruleC14 = "a verified full node (real BitcoinNode over loopback TCP; TxManager present or absent, application header handler installed or not) receives a drawn sequence of 1..15 WELL-FORMED frames over the full command set: ping, pong (right/wrong nonce), repeated version/verack, protoconf (first/again), headers (empty, 1..2000 acceptable, refused), inv (0..5000 tx or block items), addr (0..1000), getaddr, reject, unknown and unhandled commands with payloads 0,1,1023/1024/1025,..,4 MB, tx and extended tx up to MBs, blocks (classic/extended) unrequested, requested through RequestBlock with a harness handler, or of the wrong hash, extended unknown and extended classic commands; frames the protocol defines as fatal (second protoconf, refused headers, pong with a wrong nonce) are generated with the model predicting 'node may close'; in half of the cases everything the scripted peer writes is cut into pieces of 1..100 bytes over the first 160 bytes of each send (TCP segmentation at arbitrary offsets); oracle: after the sequence a ping with a fresh nonce is answered by a pong with that nonce, unless a predicted-fatal frame was sent and the node closed; non-trivial = sequence with an extended frame, an unknown command, a payload >= 64 KiB or a block frame; distinct = (txm flag, frame kind list)"

func TestProp_C14_framing(t *testing.T) {
	col := evid.For("C14", "framing", ruleC14)
	rapid.Check(t, func(t *rapid.T) {
		k := col.NewCase()
		ctx := vt.Ctx()
		tCase := time.Now()
		var kindsForTiming *[]string
		defer func() {
			if d := time.Since(tCase); d > 100*time.Millisecond && os.Getenv("VERIF_TIMING") != "" {
				fmt.Printf("SLOWCASE %v %v\n", d, *kindsForTiming)
			}
		}()
		hasTxm := rapid.Bool().Draw(t, "txManager")
		var txm *bitcoin_reader.TxManager
		log := spy.NewLog()
		if hasTxm {
			txm = bitcoin_reader.NewTxManager(time.Hour)
			txm.SetTxProcessor(spy.Processor{L: log})
			go txm.Run(ctx)
			defer txm.Stop(ctx)
		}
		appHeaders := rapid.Bool().Draw(t, "headerHandler")
		s := Start(t, Opts{TxManager: txm, HeaderHandler: appHeaders, Fragment: genFragment(t)})
		defer s.Finish(bound)
		s.Ready(t)
		fs := &framingState{s: s, t: t, hasTxm: hasTxm}
		fs.chainTip = model.RawHeader{Version: 1, Merkle: model.Hash(h32("4a5e1e4baab89f3a32518a88c31bc87f618f76673e2cc77ab2127b7afdeda33b")), Timestamp: 1231006505, Bits: 0x1d00ffff, Nonce: 2083236893}
		for _, f := range s.Peer.Received() {
			if f.Command == "ping" {
				fs.nodePing = f.Payload
			}
		}
		n := rapid.IntRange(1, 15).Draw(t, "n")
		var kinds []string
		kindsForTiming = &kinds
		mayClose, interesting := false, false
		for i := 0; i < n; i++ {
			tFrame := time.Now()
			w := fs.next(t)
			defer func(kind *string) {
				if d := time.Since(tFrame); d > 50*time.Millisecond && os.Getenv("VERIF_TIMING") != "" {
					fmt.Printf("SLOWFRAME %v %s\n", d, *kind)
				}
			}(&w.kind)
			if w.kind == "block-requested" {
				if !fs.sendRequestedBlock(t, ctx) {
					w.kind = "block-requested(busy)"
				}
				interesting = true
			}
			kinds = append(kinds, w.kind)
			mayClose = mayClose || w.mayClose
			if w.big || strings.HasPrefix(w.kind, "ext") || w.kind == "unknown" || strings.HasPrefix(w.kind, "block") {
				interesting = true
			}
			sendErr := false
			for _, f := range w.frames {
				if err := s.Peer.Send(f); err != nil {
					sendErr = true
				}
			}
			if sendErr {
				break
			}
		}
		k.Op("txm=%v frames=%v", hasTxm, kinds)
		tStart := time.Now()
		defer func() {
			if d := time.Since(tStart); d > 100*time.Millisecond && os.Getenv("VERIF_TIMING") != "" {
				fmt.Printf("SLOW %v %v mayClose=%v closed=%v\n", d, kinds, mayClose, s.Peer.Closed())
			}
		}()
		nonce := uint64(0xC14C14C14)
		s.Peer.Send(p2p.Ping(nonce))
		answered := s.Peer.WaitFor(bound, func(got []p2p.Frame, closed bool) bool {
			if closed {
				return true
			}
			want := p2p.Pong(nonce).Payload
			for _, f := range got {
				if f.Command == "pong" && bytes.Equal(f.Payload, want) {
					return true
				}
			}
			return false
		})
		gotPong := s.Peer.WaitPong(nonce, 0)
		switch {
		case gotPong:
		case !answered:
			t.Fatalf("after %v the node neither answered the ping nor closed the connection within %s (framing desynchronised or reader stuck)", kinds, bound)
		case s.Peer.Closed() && !mayClose:
			t.Fatalf("node closed the connection after the well-formed sequence %v (no frame in it is fatal by protocol)", kinds)
		}
		if mayClose {
			k.Class("contains_protocol_fatal_frame")
		}
		k.NonTrivial = interesting
		k.Done()
	})
}

// sendRequestedBlock asks the node for a block through RequestBlock with a draining handler and
// delivers it (classic or extended framing).
func (fs *framingState) sendRequestedBlock(t *rapid.T, ctx context.Context) bool {
	fs.seq++
	ntx := rapid.IntRange(1, 8).Draw(t, "reqTxs")
	txs := make([]*wire.MsgTx, ntx)
	ids := make([]model.Hash, ntx)
	for i := range txs {
		txs[i] = p2p.Tx(fs.seq<<8+uint32(i), sizeClass(t)%20000)
		ids[i] = p2p.TxID(txs[i])
	}
	h := model.RawHeader{Version: 1, Bits: 0x1d00ffff, Nonce: fs.seq, Merkle: model.MerkleRoot(ids)}
	h.Prev[0] = 0xB2
	handled := make(chan int, 1)
	handler := func(ctx context.Context, header *wire.BlockHeader, txCount uint64, txChannel <-chan *wire.MsgTx) error {
		c := 0
		for range txChannel {
			c++
		}
		handled <- c
		return nil
	}
	before := fs.s.Peer.Count("getdata")
	if err := fs.s.Node.RequestBlock(ctx, bitcoin.Hash32(h.Hash()), handler, func(context.Context) {}); err != nil {
		return false // busy with a previous request
	}
	if !fs.s.Peer.WaitFor(bound, func(got []p2p.Frame, closed bool) bool {
		c := 0
		for _, f := range got {
			if f.Command == "getdata" {
				c++
			}
		}
		return c > before || closed
	}) {
		t.Fatalf("node did not send getdata for the requested block")
	}
	if fs.s.Peer.Closed() {
		return true // the node hung up (an earlier frame was fatal by protocol)
	}
	extended := rapid.Bool().Draw(t, "extBlock")
	if err := fs.s.Peer.Send(p2p.Block(h, txs, uint64(ntx), extended)); err != nil {
		return true
	}
	deadline := time.Now().Add(bound)
	for {
		select {
		case c := <-handled:
			if c != ntx {
				t.Fatalf("block handler received %d of %d transactions", c, ntx)
			}
			return true
		case <-time.After(2 * time.Millisecond):
		}
		if fs.s.Peer.Closed() {
			return true // the node hung up (an earlier frame was fatal by protocol)
		}
		if time.Now().After(deadline) {
			t.Fatalf("requested block (%d txs, extended=%v) was not handed to the handler", ntx, extended)
		}
	}
}

// TestRegr_C14_version_flood: a verified peer repeating version/verack (well-formed frames) must
// not wedge the reader.
func TestRegr_C14_version_flood(t *testing.T) {
	s := Start(t, Opts{})
	defer s.Finish(bound)
	s.Ready(t)
	for i := 0; i < 14; i++ {
		s.Peer.Send(p2p.Version(int32(i)), p2p.Verack())
	}
	s.Peer.Send(p2p.Ping(99))
	if !s.Peer.WaitPong(99, bound) {
		t.Fatalf("after 14 repeated version+verack messages the node no longer answers ping (closed=%v)", s.Peer.Closed())
	}
	_ = fmt.Sprint
}

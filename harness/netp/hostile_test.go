package netp

import (
	"bytes"
	"context"
	"encoding/binary"
	"encoding/hex"
	"fmt"
	"net"
	"os"
	"os/exec"
	"path/filepath"
	"runtime"
	"strings"
	"testing"
	"time"

	"verifharness/internal/evid"
	"verifharness/internal/memstore"
	"verifharness/internal/model"
	"verifharness/internal/p2p"
	"verifharness/internal/spy"
	"verifharness/internal/vt"

	bitcoin_reader "github.com/tokenized/bitcoin_reader"
	"github.com/tokenized/bitcoin_reader/headers"
	"github.com/tokenized/pkg/bitcoin"
	"github.com/tokenized/pkg/wire"
	"pgregory.net/rapid"
)

// hostileCase is one byte stream delivered at a session stage.
type hostileCase struct {
	Stage         int  // 0 connected, 2 verification pending, 3 ready
	TxManager     bool // node has a transaction manager (tx/inv handlers installed when ready)
	RequestBlock  bool // a block was requested from the peer before the bytes are sent
	HeaderHandler bool // the application installed its own header handler (SetHeaderHandler)
	Chunks        [][]byte
}

func (c hostileCase) bytes() int {
	n := 0
	for _, ch := range c.Chunks {
		n += len(ch)
	}
	return n
}

func (c hostileCase) encode() []byte {
	var buf bytes.Buffer
	buf.WriteByte(byte(c.Stage))
	flags := byte(0)
	if c.TxManager {
		flags |= 1
	}
	if c.RequestBlock {
		flags |= 2
	}
	if c.HeaderHandler {
		flags |= 4
	}
	buf.WriteByte(flags)
	for _, ch := range c.Chunks {
		binary.Write(&buf, binary.LittleEndian, uint32(len(ch)))
		buf.Write(ch)
	}
	return buf.Bytes()
}

func decodeCase(b []byte) hostileCase {
	c := hostileCase{Stage: int(b[0]), TxManager: b[1]&1 != 0, RequestBlock: b[1]&2 != 0, HeaderHandler: b[1]&4 != 0}
	b = b[2:]
	for len(b) >= 4 {
		n := binary.LittleEndian.Uint32(b)
		b = b[4:]
		if int(n) > len(b) {
			break
		}
		c.Chunks = append(c.Chunks, b[:n])
		b = b[n:]
	}
	return c
}

// newStrictHeaders is a header repository with difficulty checks ON: nothing the hostile
// generator produces can be accepted, so the repository must be unchanged after every case.
func newStrictHeaders() *spyHeaders {
	repo := headers.NewRepository(headers.DefaultConfig(), memstore.New())
	repo.InitializeWithGenesis()
	return &spyHeaders{Repository: repo}
}

type hostileResult struct {
	runReturned bool
	sysGrowth   uint64
	repoChanged bool
	bystander   string
}

// requestedHeader is the header of the block the node is made to request in RequestBlock cases;
// hostile block chunks carry exactly this header so that they are taken as the requested block.
var requestedHeader = model.RawHeader{Version: 1, Bits: 0x1d00ffff}
var requestedBlockHash = bitcoin.Hash32(requestedHeader.Hash())

// runHostile plays one case against a real node and reports the observations of the C15 oracle.
func runHostile(t failer, c hostileCase) hostileResult {
	ctx := vt.Ctx()
	var res hostileResult
	hdrs, book := newStrictHeaders(), newPeers()
	tipBefore, heightBefore := hdrs.LastHash(), hdrs.Height()
	var txm *bitcoin_reader.TxManager
	if c.TxManager {
		txm = bitcoin_reader.NewTxManager(time.Hour)
		txm.SetTxProcessor(spy.Processor{L: spy.NewLog()})
		go txm.Run(ctx)
		defer txm.Stop(ctx)
	}
	var ms runtime.MemStats
	runtime.ReadMemStats(&ms)
	sysBefore := ms.Sys
	s := Start(t, Opts{TxManager: txm, Headers: hdrs, Peers: book, HeaderHandler: c.HeaderHandler})
	switch c.Stage {
	case 2:
		s.Handshake(t)
	case 3:
		s.Ready(t)
		if c.RequestBlock {
			handler := func(ctx context.Context, header *wire.BlockHeader, txCount uint64, txChannel <-chan *wire.MsgTx) error {
				for range txChannel {
				}
				return nil
			}
			s.Node.RequestBlock(ctx, requestedBlockHash, handler, func(context.Context) {})
			s.Peer.WaitCommand("getdata", 1, stageTimeout)
		}
	}
	for _, ch := range c.Chunks {
		if err := s.Peer.SendRaw(ch); err != nil {
			break
		}
	}
	// let the node digest: a ping is answered only while the stream is still in sync
	s.Peer.Send(p2p.Ping(0xC15))
	wantPong := p2p.Pong(0xC15).Payload
	s.Peer.WaitFor(300*time.Millisecond, func(got []p2p.Frame, closed bool) bool {
		for _, f := range got {
			if f.Command == "pong" && bytes.Equal(f.Payload, wantPong) {
				return true
			}
		}
		return closed
	})
	// the peer goes away: Run must return (without an interrupt)
	s.Peer.Close()
	res.runReturned = s.RunReturned(bound)
	s.Finish(time.Second)
	runtime.ReadMemStats(&ms)
	if ms.Sys > sysBefore {
		res.sysGrowth = ms.Sys - sysBefore
	}
	// other connections and the repositories are unaffected
	if tip := hdrs.LastHash(); !tip.Equal(&tipBefore) || hdrs.Height() != heightBefore {
		res.repoChanged = true
	}
	by := Start(t, Opts{Headers: hdrs, Peers: book})
	func() {
		defer by.Finish(bound)
		if !by.Peer.WaitCommand("version", 1, stageTimeout) {
			res.bystander = "bystander: node did not send version"
			return
		}
		by.Peer.Send(p2p.Version(0), p2p.Verack())
		if !by.Peer.WaitCommand("getheaders", 1, stageTimeout) {
			res.bystander = "bystander: no verification request"
			return
		}
		by.Peer.Send(p2p.Headers([]model.RawHeader{bsvHeader()}))
		if !by.Peer.WaitCommand("addr", 1, stageTimeout) {
			res.bystander = "bystander: not accepted"
			return
		}
		by.Peer.Send(p2p.Ping(5))
		if !by.Peer.WaitPong(5, stageTimeout) {
			res.bystander = "bystander: no pong"
		}
	}()
	return res
}

// ---------------------------------------------------------------------------------------------
// generator

func le32(v uint32) []byte { b := make([]byte, 4); binary.LittleEndian.PutUint32(b, v); return b }
func le64(v uint64) []byte { b := make([]byte, 8); binary.LittleEndian.PutUint64(b, v); return b }

func hugeVarInt(t *rapid.T) []byte {
	return p2p.VarInt(rapid.SampledFrom([]uint64{0xfd, 0xffff, 0x10000, 1 << 31, 1<<32 - 1, 1 << 32, 1 << 40, 1<<63 - 1, 1 << 63, 1<<64 - 1}).Draw(t, "hugeCount"))
}

// txBytesWithCounts renders a transaction whose input/output/script counts are chosen freely.
func txBytesWithCounts(inCount, scriptLen, outCount []byte, tail []byte) []byte {
	var buf bytes.Buffer
	buf.Write(le32(1))
	buf.Write(inCount)
	buf.Write(make([]byte, 36)) // outpoint
	buf.Write(scriptLen)
	buf.Write([]byte{0x51})
	buf.Write(le32(0xffffffff))
	buf.Write(outCount)
	buf.Write(le64(1))
	buf.Write(p2p.VarInt(1))
	buf.Write([]byte{0x6a})
	buf.Write(le32(0))
	buf.Write(tail)
	return buf.Bytes()
}

var knownCommands = []string{"version", "verack", "ping", "pong", "headers", "inv", "addr", "getaddr", "tx", "block", "protoconf", "reject", "extmsg", "zzz", "getheaders", "sendheaders"}

// genChunk draws one chunk and its class. countsBeyondData marks transaction encodings whose
// declared input/output/script counts exceed the bytes present (known finding C15-wirecounts).
func genChunk(t *rapid.T, allowKnown bool) (chunk []byte, class string) {
	class = rapid.SampledFrom([]string{"random", "valid", "valid", "badsum", "badlen", "truncated", "oversize", "oversize", "ext-huge", "ext-huge",
		"headers-hostile", "inv-hugecount", "addr-hugecount", "tx-hostile", "tx-hostile", "version-hostile", "wrong-magic", "bad-command", "protoconf-hostile", "block-hostile"}).Draw(t, "chunkClass")
	valid := func() p2p.Frame {
		switch rapid.IntRange(0, 6).Draw(t, "validKind") {
		case 0:
			return p2p.Ping(uint64(rapid.Uint32().Draw(t, "n")))
		case 1:
			return p2p.Headers(nil)
		case 2:
			return p2p.Inv(1, []model.Hash{{1, 2, 3}})
		case 3:
			return p2p.Addr(2)
		case 4:
			return p2p.Frame{Command: "zzz", Payload: rapid.SliceOfN(rapid.Byte(), 0, 300).Draw(t, "p")}
		case 5:
			return p2p.TxFrame(p2p.Tx(rapid.Uint32().Draw(t, "txseed"), 100), rapid.Bool().Draw(t, "ext"))
		}
		return p2p.Protoconf()
	}
	switch class {
	case "random":
		return rapid.SliceOfN(rapid.Byte(), 1, 200).Draw(t, "bytes"), class
	case "valid":
		return p2p.Encode(valid()), class
	case "badsum":
		b := p2p.Encode(valid())
		b[20+rapid.IntRange(0, 3).Draw(t, "i")] ^= 0x55
		return b, class
	case "badlen":
		b := p2p.Encode(valid())
		n := binary.LittleEndian.Uint32(b[16:20])
		nl := rapid.SampledFrom([]uint32{n + 1, n - 1, n * 2, 0, 0x7fffffff, 0xfffffffe, n + 1000}).Draw(t, "newLen")
		binary.LittleEndian.PutUint32(b[16:20], nl)
		return b, class
	case "truncated":
		b := p2p.Encode(valid())
		return b[:rapid.IntRange(1, len(b)-1).Draw(t, "cut")], class
	case "oversize":
		cmd := rapid.SampledFrom(knownCommands).Draw(t, "cmd")
		n := rapid.SampledFrom([]uint32{1 << 20, 1 << 26, 1<<31 - 1, 1 << 31, 0xfffffffe}).Draw(t, "declared")
		if cmd == "extmsg" {
			n = 0xffffffff
		}
		b := p2p.RawHeader(p2p.Magic, cmd, n, [4]byte{})
		return append(b, rapid.SliceOfN(rapid.Byte(), 0, 100).Draw(t, "some")...), class + ":" + cmd
	case "ext-huge":
		cmd := rapid.SampledFrom([]string{"tx", "block", "weird", "ping", "headers"}).Draw(t, "extCmd")
		n := rapid.SampledFrom([]uint64{0, 5, 1 << 32, 1 << 40, 1 << 62, 1<<63 - 1, 1 << 63, 1<<64 - 1}).Draw(t, "extLen")
		var buf bytes.Buffer
		buf.Write(p2p.RawHeader(p2p.Magic, "extmsg", 0xffffffff, [4]byte{}))
		b := make([]byte, 12)
		copy(b, cmd)
		buf.Write(b)
		buf.Write(le64(n))
		buf.Write(rapid.SliceOfN(rapid.Byte(), 0, 120).Draw(t, "some"))
		return buf.Bytes(), class + ":" + cmd
	case "headers-hostile":
		var buf bytes.Buffer
		switch rapid.IntRange(0, 3).Draw(t, "hk") {
		case 0: // huge count, few headers
			buf.Write(hugeVarInt(t))
			buf.Write(make([]byte, 81))
		case 1: // non-zero tx count
			buf.Write(p2p.VarInt(1))
			buf.Write(make([]byte, 80))
			buf.Write(hugeVarInt(t))
		case 2: // bits / timestamp extremes on a child of genesis
			h := genesisChild(rapid.Uint32().Draw(t, "n"))
			h.Bits = rapid.SampledFrom([]uint32{0x01010000, 0x02000100, 0, 0xffffffff, 0x2100ffff, 0x1d00ffff, 0x00800000}).Draw(t, "bits")
			h.Timestamp = rapid.SampledFrom([]uint32{0, 1, 0x7fffffff, 0xffffffff}).Draw(t, "ts")
			buf.Write(p2p.VarInt(1))
			buf.Write(h.Bytes())
			buf.WriteByte(0)
			if model.HashValue(h.Hash()).Cmp(model.CompactPermissive(h.Bits)) <= 0 {
				class += "+acceptable" // an absurdly easy target the header meets: may be accepted
			}
		case 3: // count larger than the payload
			buf.Write(p2p.VarInt(2000))
			buf.Write(make([]byte, 81*2))
		}
		return p2p.Encode(p2p.Frame{Command: "headers", Payload: buf.Bytes()}), class
	case "inv-hugecount":
		var buf bytes.Buffer
		buf.Write(hugeVarInt(t))
		buf.Write(make([]byte, 36*rapid.IntRange(0, 3).Draw(t, "items")))
		return p2p.Encode(p2p.Frame{Command: "inv", Payload: buf.Bytes()}), class
	case "addr-hugecount":
		var buf bytes.Buffer
		buf.Write(hugeVarInt(t))
		buf.Write(make([]byte, 30*rapid.IntRange(0, 3).Draw(t, "items")))
		return p2p.Encode(p2p.Frame{Command: "addr", Payload: buf.Bytes()}), class
	case "tx-hostile", "block-hostile":
		one := p2p.VarInt(1)
		in, sl, out := one, one, one
		which := rapid.IntRange(0, 3).Draw(t, "which")
		if !allowKnown {
			which = 3 // counts beyond the data: known finding C15-wirecounts (excluded by construction)
			class += "(consistent-counts)"
		}
		switch which {
		case 0:
			in = hugeVarInt(t)
		case 1:
			sl = hugeVarInt(t)
		case 2:
			out = hugeVarInt(t)
		case 3: // structurally valid but with garbage tail / odd version
		}
		payload := txBytesWithCounts(in, sl, out, rapid.SliceOfN(rapid.Byte(), 0, 20).Draw(t, "tail"))
		if strings.HasPrefix(class, "block-hostile") {
			var buf bytes.Buffer
			h := model.RawHeader{Version: 1, Bits: 0x1d00ffff}
			buf.Write(h.Bytes())
			buf.Write(p2p.VarInt(uint64(rapid.SampledFrom([]uint64{1, 2, 1 << 33, 1<<64 - 1}).Draw(t, "blockTxCount"))))
			buf.Write(payload)
			return p2p.Encode(p2p.Frame{Command: "block", Payload: buf.Bytes(), Extended: rapid.Bool().Draw(t, "ext")}), class
		}
		return p2p.Encode(p2p.Frame{Command: "tx", Payload: payload, Extended: rapid.Bool().Draw(t, "ext")}), class
	case "version-hostile":
		f := p2p.Version(0)
		p := append([]byte(nil), f.Payload...)
		switch rapid.IntRange(0, 2).Draw(t, "vk") {
		case 0: // user agent length huge (offset 80)
			ua := hugeVarInt(t)
			if !allowKnown {
				ua = p2p.VarInt(rapid.SampledFrom([]uint64{0xfd, 0xffff, 1 << 20}).Draw(t, "uaLen")) // larger: known finding C15-wirecounts
				class += "(capped)"
			}
			p = append(append(p[:80:80], ua...), 'x')
		case 1:
			p = p[:rapid.IntRange(0, len(p)-1).Draw(t, "cut")]
		case 2:
			p = append(p, rapid.SliceOfN(rapid.Byte(), 1, 50).Draw(t, "extra")...)
		}
		return p2p.Encode(p2p.Frame{Command: "version", Payload: p}), class
	case "wrong-magic":
		b := p2p.Encode(valid())
		binary.LittleEndian.PutUint32(b[0:4], rapid.Uint32().Draw(t, "magic"))
		return b, class
	case "bad-command":
		b := p2p.Encode(valid())
		copy(b[4:16], rapid.SliceOfN(rapid.Byte(), 12, 12).Draw(t, "cmdBytes"))
		return b, class
	case "protoconf-hostile":
		var buf bytes.Buffer
		buf.Write(hugeVarInt(t))
		buf.Write(le32(rapid.Uint32().Draw(t, "max")))
		if allowKnown {
			buf.Write(hugeVarInt(t))
		} else {
			buf.Write(p2p.VarInt(rapid.SampledFrom([]uint64{0xfd, 0xffff, 1 << 20}).Draw(t, "spLen"))) // larger: known finding C15-wirecounts
			class += "(capped)"
		}
		return p2p.Encode(p2p.Frame{Command: "protoconf", Payload: buf.Bytes()}), class
	}
	return []byte{0}, class
}

func genHostile(t *rapid.T, allowKnown bool) (hostileCase, []string) {
	c := hostileCase{Stage: rapid.SampledFrom([]int{0, 2, 3, 3}).Draw(t, "stage"), TxManager: rapid.Bool().Draw(t, "txManager")}
	if c.Stage == 3 {
		c.RequestBlock = rapid.Bool().Draw(t, "requestBlock")
	}
	c.HeaderHandler = rapid.Bool().Draw(t, "headerHandler")
	n := rapid.IntRange(1, 6).Draw(t, "chunks")
	var classes []string
	for i := 0; i < n; i++ {
		ch, cl := genChunk(t, allowKnown)
		c.Chunks = append(c.Chunks, ch)
		classes = append(classes, cl)
	}
	return c, classes
}

const ruleC15 = "byte streams of 1..6 chunks delivered at a drawn stage (S0 before handshake / S2 verification pending / S3 ready; TxManager on/off; block requested or not; application header handler installed or not) to a real BitcoinNode over loopback TCP: random bytes, valid frames, corrupt checksum, altered length (+1,-1,x2,0,2^31-1,2^32-2), truncation, oversize declared length for every known command with little data, extended headers with lengths 0..2^64-1, headers/inv/addr with counts up to 2^64-1, header bits/timestamp extremes, hostile version/protoconf, wrong magic, non-UTF8 command, hostile tx/block encodings; every case is journalled to disk BEFORE it runs so that a dead process names its killer; oracle: the test process stays alive (a panic in any node goroutine kills it => violation with the journalled bytes as replay), Run returns within 10 s after the peer closes WITHOUT an interrupt, runtime.MemStats.Sys grows by <= 64 MiB + 4 x bytes actually sent (a length field may not size a reservation), the header repository (difficulty checks on: nothing generated is acceptable) is unchanged, and a well-behaved bystander session sharing the repositories verifies and gets its pong; recorded known findings are excluded by construction and counted; non-trivial = stage S2/S3 with an oversize/extended/hostile-count chunk; distinct = (stage, flags, chunk class list)"

func journalPath() string {
	dir := os.Getenv("VERIF_EVID_DIR")
	if dir == "" {
		dir = os.TempDir()
	}
	return filepath.Join(dir, "c15-journal.bin")
}

func checkHostile(t failer, c hostileCase, classes []string) {
	res := runHostile(t, c)
	sent := uint64(c.bytes())
	desc := fmt.Sprintf("stage S%d txManager=%v blockRequested=%v headerHandler=%v chunks=%v (%d bytes)", c.Stage, c.TxManager, c.RequestBlock, c.HeaderHandler, classes, sent)
	if !res.runReturned {
		t.Fatalf("Run did not return within %s after the peer closed: %s", bound, desc)
	}
	if limit := uint64(64<<20) + 4*sent; res.sysGrowth > limit {
		t.Fatalf("memory reserved from the OS grew by %d MiB for %d bytes received (limit 64 MiB + 4x): a declared length or count sized an allocation: %s", res.sysGrowth>>20, sent, desc)
	}
	acceptable := false
	for _, cl := range classes {
		if strings.Contains(cl, "+acceptable") {
			acceptable = true
		}
	}
	if res.repoChanged && !acceptable {
		t.Fatalf("header repository changed by hostile bytes: %s", desc)
	}
	if res.bystander != "" {
		t.Fatalf("%s after: %s", res.bystander, desc)
	}
}

func propC15(col *evid.Collector, allowKnown bool) func(t *rapid.T) {
	return func(t *rapid.T) {
		k := col.NewCase()
		c, classes := genHostile(t, allowKnown)
		os.WriteFile(journalPath(), c.encode(), 0o644)
		checkHostile(t, c, classes)
		k.Op("S%d txm=%v req=%v hh=%v %v", c.Stage, c.TxManager, c.RequestBlock, c.HeaderHandler, classes)
		for _, cl := range classes {
			k.Class(strings.SplitN(cl, ":", 2)[0])
			if strings.Contains(cl, "(") {
				col.Count("excluded_known", 1)
			}
			if c.Stage >= 2 && (strings.HasPrefix(cl, "oversize") || strings.HasPrefix(cl, "ext-huge") || strings.Contains(cl, "huge") || strings.Contains(cl, "hostile")) {
				k.NonTrivial = true
			}
		}
		k.Class(fmt.Sprintf("stage%d", c.Stage))
		k.Done()
	}
}

func TestProp_C15_bytes(t *testing.T) {
	col := evid.For("C15", "bytes", ruleC15)
	_, openCounts := vt.OpenFinding("C15-wirecounts")
	rapid.Check(t, propC15(col, !openCounts))
}

// FuzzC15Stream drives the same structured generator with Go's coverage-guided fuzzer (all
// cores, thorough tier).
func FuzzC15Stream(f *testing.F) {
	col := evid.For("C15", "fuzz", ruleC15)
	_, openCounts := vt.OpenFinding("C15-wirecounts")
	f.Fuzz(rapid.MakeFuzz(propC15(col, !openCounts)))
}

// TestReplay_C15 replays a journalled case (VERIF_REPLAY_FILE).
func TestReplay_C15(t *testing.T) {
	path := os.Getenv("VERIF_REPLAY_FILE")
	if path == "" {
		t.Skip("no VERIF_REPLAY_FILE")
	}
	data, err := os.ReadFile(path)
	if err != nil {
		t.Fatal(err)
	}
	checkHostile(t, decodeCase(data), []string{"replay"})
}

// ---------------------------------------------------------------------------------------------
// crash probes, each in a child process so that the parent survives

type probe struct {
	key  string
	desc string
	c    func() hostileCase
}

func extFrameHeader(cmd string, n uint64) []byte {
	var buf bytes.Buffer
	buf.Write(p2p.RawHeader(p2p.Magic, "extmsg", 0xffffffff, [4]byte{}))
	b := make([]byte, 12)
	copy(b, cmd)
	buf.Write(b)
	buf.Write(le64(n))
	return buf.Bytes()
}

var probes = []probe{
	{"C15-extlen", "extended tx frame declaring 2^64-1 bytes", func() hostileCase {
		return hostileCase{Stage: 3, TxManager: true, Chunks: [][]byte{append(extFrameHeader("tx", 1<<64-1), 1, 2, 3)}}
	}},
	{"C15-extlen", "extended tx frame declaring 2^63 bytes", func() hostileCase {
		return hostileCase{Stage: 3, TxManager: true, Chunks: [][]byte{append(extFrameHeader("tx", 1<<63), 1, 2, 3)}}
	}},
	{"C15-wirecounts", "tx message (valid checksum) whose input count is 2^40", func() hostileCase {
		p := txBytesWithCounts(p2p.VarInt(1<<40), p2p.VarInt(1), p2p.VarInt(1), nil)
		return hostileCase{Stage: 3, TxManager: true, Chunks: [][]byte{p2p.Encode(p2p.Frame{Command: "tx", Payload: p})}}
	}},
	{"C15-wirecounts", "tx message whose output count is 2^40", func() hostileCase {
		p := txBytesWithCounts(p2p.VarInt(1), p2p.VarInt(1), p2p.VarInt(1<<40), nil)
		return hostileCase{Stage: 3, TxManager: true, Chunks: [][]byte{p2p.Encode(p2p.Frame{Command: "tx", Payload: p})}}
	}},
	{"C15-wirecounts", "tx message whose script length is 2^40", func() hostileCase {
		p := txBytesWithCounts(p2p.VarInt(1), p2p.VarInt(1<<40), p2p.VarInt(1), nil)
		return hostileCase{Stage: 3, TxManager: true, Chunks: [][]byte{p2p.Encode(p2p.Frame{Command: "tx", Payload: p})}}
	}},
	{"C15-wirecounts", "version message (before the handshake) whose user agent length is 2^40", func() hostileCase {
		f := p2p.Version(0)
		p := append(append(f.Payload[:80:80], p2p.VarInt(1<<40)...), 'x')
		return hostileCase{Stage: 0, Chunks: [][]byte{p2p.Encode(p2p.Frame{Command: "version", Payload: p})}}
	}},
	{"C15-wirecounts", "protoconf message whose stream policies length is 2^40", func() hostileCase {
		var buf bytes.Buffer
		buf.Write(p2p.VarInt(2))
		buf.Write(le32(1 << 20))
		buf.Write(p2p.VarInt(1 << 40))
		return hostileCase{Stage: 2, Chunks: [][]byte{p2p.Encode(p2p.Frame{Command: "protoconf", Payload: buf.Bytes()})}}
	}},
	{"C15-blockoverread", "requested block announcing 2 transactions but carrying 1, followed by another block frame and a tx (the shrunk thorough-tier case, byte for byte): the second transaction was parsed out of the NEXT message's bytes (a 4 GiB script length)", func() hostileCase {
		unhex := func(h string) []byte {
			b, err := hex.DecodeString(h)
			if err != nil {
				panic(err)
			}
			return b
		}
		return hostileCase{Stage: 3, TxManager: true, RequestBlock: true, Chunks: [][]byte{
			unhex("e3e1f3e8626c6f636b0000000000000093000000d833f27a010000000000000000000000000000000000000000000000000000000000000000000000000000000000000000000000000000000000000000000000000000000000000000000000ffff001d000000000201000000010000000000000000000000000000000000000000000000000000000000000000000000000151ffffffff010100000000000000016a00000000540a007d"),
			unhex("e3e1f3e8626c6f636b000000000000009800000001d3dd8b010000000000000000000000000000000000000000000000000000000000000000000000000000000000000000000000000000000000000000000000000000000000000000000000ffff001d00000000ffffffffffffffffff01000000010000000000000000000000000000000000000000000000000000000000000000000000000151ffffffff010100000000000000016a00000000d8"),
			unhex("e3e1f3e87478000000000000000000003e000000635f952001000000010000000000000000000000000000000000000000000000000000000000000000000000000151ffffffff010100000000000000016a00000000"),
		}}
	}},
	{"C15-wirecounts", "requested block whose first transaction declares 2^40 inputs", func() hostileCase {
		var buf bytes.Buffer
		h := model.RawHeader{Version: 1, Bits: 0x1d00ffff}
		buf.Write(h.Bytes())
		buf.Write(p2p.VarInt(1))
		buf.Write(txBytesWithCounts(p2p.VarInt(1<<40), p2p.VarInt(1), p2p.VarInt(1), nil))
		return hostileCase{Stage: 3, RequestBlock: true, Chunks: [][]byte{p2p.Encode(p2p.Frame{Command: "block", Payload: buf.Bytes()})}}
	}},
}

// TestCrashChild_C15 runs one probe in this (child) process.
func TestCrashChild_C15(t *testing.T) {
	idx := os.Getenv("VERIF_C15_CHILD")
	if idx == "" {
		t.Skip("child only")
	}
	var i int
	fmt.Sscan(idx, &i)
	c := probes[i].c()
	checkHostile(t, c, []string{probes[i].desc})
}

// TestRegr_C15_probes re-executes the recorded crash inputs, one child process each.
func TestRegr_C15_probes(t *testing.T) {
	col := evid.For("C15", "bytes", ruleC15)
	for i, p := range probes {
		cmd := exec.Command(os.Args[0], "-test.run", "^TestCrashChild_C15$", "-test.timeout", "120s")
		cmd.Env = append(os.Environ(), fmt.Sprintf("VERIF_C15_CHILD=%d", i), "VERIF_EVID_DIR=")
		out, err := cmd.CombinedOutput()
		crashed := err != nil
		detail := ""
		if crashed {
			s := string(out)
			if j := strings.Index(s, "panic:"); j >= 0 {
				s = s[j:]
			} else if j := strings.Index(s, "fatal error:"); j >= 0 {
				s = s[j:]
			} else if j := strings.Index(s, "--- FAIL"); j >= 0 {
				s = s[j:]
			}
			if len(s) > 400 {
				s = s[:400]
			}
			detail = fmt.Sprintf("%s: worker process died or check failed: %s", p.desc, strings.ReplaceAll(s, "\n", " | "))
			t.Logf("%s", detail)
		}
		vt.KnownFinding(t, col, p.key, crashed, detail)
	}
}

// ---------------------------------------------------------------------------------------------
// C15, back pressure: a peer that stops READING while it keeps sending messages the node answers.

const ruleC15bp = "a real BitcoinNode over loopback TCP at a drawn stage (S0 / S2 / S3); the scripted peer (4 KiB receive buffer) stops reading, then sends a drawn number (20 000 / 300 000 / 450 000, in batches of 1000) of well-formed pings, each of which makes the node queue a pong: once the socket buffers are full (about 4 MiB of pongs on this kernel) the node's writer blocks, the 1000-slot outgoing queue fills and the ping handler waits for a slot (observed in a goroutine dump); then the peer closes the connection, or (when the handler is not parked) stays connected without reading and sends bytes that are not a message; oracle: Run returns within 10 s without an interrupt (the node ends the session itself in the second case), and a well-behaved bystander session sharing the repositories still verifies and gets its pong; non-trivial = the handler was parked on the full queue when the peer closed; distinct = (stage, ping count, parked)"

func TestProp_C15_backpressure(t *testing.T) {
	col := evid.For("C15", "backpressure", ruleC15bp)
	rapid.Check(t, func(t *rapid.T) {
		k := col.NewCase()
		stage := rapid.SampledFrom([]int{0, 2, 3, 3}).Draw(t, "stage")
		pings := rapid.SampledFrom([]int{20000, 300000, 300000, 450000}).Draw(t, "pings")
		ending := rapid.SampledFrom([]string{"close", "close", "garbage"}).Draw(t, "ending")
		hdrs, book := newStrictHeaders(), newPeers()
		s := Start(t, Opts{Headers: hdrs, Peers: book, PeerRcvBuf: 4096})
		switch stage {
		case 2:
			s.Handshake(t)
		case 3:
			s.Ready(t)
		}
		s.Peer.StopReading()
		one := p2p.Encode(p2p.Ping(7))
		var buf []byte
		for i := 0; i < 1000; i++ {
			buf = append(buf, one...)
		}
		sendDone := make(chan struct{})
		go func() {
			defer close(sendDone)
			for sent := 0; sent < pings; sent += 1000 {
				if err := s.Peer.SendRaw(buf); err != nil {
					return
				}
			}
		}()
		// the node stops taking our bytes once its handler waits for a queue slot, so the sender
		// may block too: give it a moment, then go away
		select {
		case <-sendDone:
		case <-time.After(5 * time.Second):
		}
		time.Sleep(100 * time.Millisecond)
		dump := make([]byte, 4<<20)
		dump = dump[:runtime.Stack(dump, true)]
		parked := strings.Contains(string(dump), "MessageChannel).Add")
		if ending == "garbage" {
			// the peer stays connected (and still does not read) but sends bytes that are not a
			// message: the node has to end the session itself
			if parked {
				// the node's reader is waiting in the handler and will not see the bytes before a
				// queue slot frees up, which needs the peer to read: out of this ending's scope
				ending = "close"
			} else {
				s.Peer.SendRaw([]byte("\x01\x02\x03\x04garbagegarbagegarbage!!"))
			}
		}
		if ending == "close" {
			s.Peer.Close()
		}
		if !s.RunReturned(bound) {
			t.Fatalf("Run did not return within %s after a peer that had stopped reading (stage S%d, %d pings, handler parked on the full outgoing queue: %v) ended with: %s", bound, stage, pings, parked, ending)
		}
		if ending == "garbage" {
			s.Peer.Close()
		}
		s.Finish(time.Second)
		<-sendDone
		by := Start(t, Opts{Headers: hdrs, Peers: book})
		by.Ready(t)
		by.Peer.Send(p2p.Ping(0xB15))
		if !by.Peer.WaitPong(0xB15, bound) {
			t.Fatalf("bystander session got no pong after the back-pressure case")
		}
		by.Finish(bound)
		k.Op("S%d pings=%d parked=%v ending=%s", stage, pings, parked, ending)
		if parked {
			k.Class("handler_parked_on_full_outgoing_queue")
		}
		k.NonTrivial = parked || ending == "garbage"
		k.Done()
	})
}

// ---------------------------------------------------------------------------------------------
// C15, synchronous connection: over an in-memory pipe every write of the node blocks until the
// peer reads it, so "the peer is not reading" needs no socket buffers to fill.

const ruleC15pipe = "a real BitcoinNode run over an in-memory pipe (verif hook VerifRun; every write blocks until the peer reads); the scripted peer plays the session up to a drawn stage (nothing read at all / version exchanged / handshake complete / verified), then STOPS READING, optionally sends 0..40 well-formed pings (each queues a pong that cannot be written), and ends with a drawn event: close the connection, send bytes that are not a message and stay connected, or nothing at all while the caller fires the interrupt (shutdown); oracle: Run returns within 10 s in every case; non-trivial = handshake complete or later, with the node's writer blocked; distinct = (stage, pings, ending)"

func TestProp_C15_pipe(t *testing.T) {
	col := evid.For("C15", "pipe", ruleC15pipe)
	rapid.Check(t, func(t *rapid.T) {
		k := col.NewCase()
		ctx := vt.Ctx()
		stage := rapid.SampledFrom([]int{0, 1, 2, 2, 3, 3}).Draw(t, "stage")
		pings := rapid.SampledFrom([]int{0, 0, 1, 5, 40}).Draw(t, "pings")
		ending := rapid.SampledFrom([]string{"close", "garbage", "interrupt"}).Draw(t, "ending")
		hdrs, book := newStrictHeaders(), newPeers()
		node := bitcoin_reader.NewBitcoinNode("pipe:0", "/verif:1/", nodeConfig(), hdrs, book)
		nodeConn, peerConn := net.Pipe()
		interrupt := make(chan interface{})
		runDone := make(chan error, 1)
		go func() { runDone <- node.VerifRun(ctx, nodeConn, interrupt) }()

		fail := func(format string, a ...interface{}) {
			peerConn.Close()
			close(interrupt)
			t.Fatalf(format, a...)
		}
		peerConn.SetDeadline(time.Now().Add(20 * time.Second))
		readUntil := func(cmd string) bool {
			for i := 0; i < 50; i++ {
				f, err := p2p.ReadFrame(peerConn)
				if err != nil {
					return false
				}
				if f.Command == cmd {
					return true
				}
			}
			return false
		}
		write := func(fs ...p2p.Frame) bool {
			for _, f := range fs {
				if _, err := peerConn.Write(p2p.Encode(f)); err != nil {
					return false
				}
			}
			return true
		}
		if stage >= 1 {
			if !readUntil("version") || !write(p2p.Version(0)) {
				fail("%s: setup: version exchange over the pipe failed", p2p.SetupFailure)
			}
		}
		if stage >= 2 {
			if !write(p2p.Verack()) || !readUntil("getheaders") {
				fail("%s: setup: handshake over the pipe failed", p2p.SetupFailure)
			}
		}
		if stage >= 3 {
			if !write(p2p.Headers([]model.RawHeader{bsvHeader()})) || !readUntil("sendheaders") {
				fail("%s: setup: verification over the pipe failed", p2p.SetupFailure)
			}
		}
		// from here on the peer reads nothing: whatever the node writes next blocks its writer
		sent := 0
		for i := 0; i < pings; i++ {
			peerConn.SetWriteDeadline(time.Now().Add(2 * time.Second))
			if _, err := peerConn.Write(p2p.Encode(p2p.Ping(uint64(i)))); err != nil {
				break
			}
			sent++
		}
		time.Sleep(2 * time.Millisecond)
		switch ending {
		case "close":
			peerConn.Close()
		case "garbage":
			peerConn.SetWriteDeadline(time.Now().Add(2 * time.Second))
			peerConn.Write([]byte("\x01\x02\x03\x04garbagegarbagegarbage!!"))
		case "interrupt":
			close(interrupt)
		}
		select {
		case <-runDone:
		case <-time.After(bound):
			b := make([]byte, 1<<20)
			b = b[:runtime.Stack(b, true)]
			var where []string
			for _, g := range strings.Split(string(b), "\n\n") {
				if strings.Contains(g, "bitcoin_reader.(*BitcoinNode)") {
					lines := strings.Split(g, "\n")
					if len(lines) > 4 {
						lines = lines[:4]
					}
					where = append(where, strings.Join(lines, " | "))
				}
			}
			peerConn.Close()
			if ending != "interrupt" {
				close(interrupt)
			}
			t.Fatalf("Run did not return within %s: the peer stopped reading at stage %d, sent %d pings and ended with %q; node goroutines: %v", bound, stage, sent, ending, where)
		}
		peerConn.Close()
		if ending != "interrupt" {
			close(interrupt)
		}
		k.Op("stage=%d pings=%d ending=%s", stage, sent, ending)
		k.NonTrivial = stage >= 2
		k.Done()
	})
}

package netp

import (
	"context"
	"fmt"
	"io"
	"os"
	"sync"
	"testing"
	"time"

	"verifharness/internal/memstore"
	"verifharness/internal/model"
	"verifharness/internal/p2p"
	"verifharness/internal/vt"

	bitcoin_reader "github.com/tokenized/bitcoin_reader"
	"github.com/tokenized/bitcoin_reader/headers"
	"github.com/tokenized/config"
	"github.com/tokenized/pkg/bitcoin"
	"github.com/tokenized/pkg/wire"
	"pgregory.net/rapid"
)

func TestMain(m *testing.M) { vt.Main(m) }

type failer interface {
	Fatalf(string, ...any)
}

// spyHeaders wraps the real header repository and records the calls a peer can cause.
type spyHeaders struct {
	*headers.Repository
	mu       sync.Mutex
	process  int
	verify   int
	locators int
}

func (s *spyHeaders) ProcessHeader(ctx context.Context, h *wire.BlockHeader) error {
	s.mu.Lock()
	s.process++
	s.mu.Unlock()
	return s.Repository.ProcessHeader(ctx, h)
}

func (s *spyHeaders) VerifyHeader(ctx context.Context, h *wire.BlockHeader) error {
	s.mu.Lock()
	s.verify++
	s.mu.Unlock()
	return s.Repository.VerifyHeader(ctx, h)
}

func (s *spyHeaders) processed() int {
	s.mu.Lock()
	defer s.mu.Unlock()
	return s.process
}

// spyPeers wraps the real address book.
type spyPeers struct {
	*bitcoin_reader.StoragePeerRepository
	mu      sync.Mutex
	adds    []string
	scores  []string
	updates int
}

func (s *spyPeers) Add(ctx context.Context, a string) (bool, error) {
	s.mu.Lock()
	s.adds = append(s.adds, a)
	s.mu.Unlock()
	return s.StoragePeerRepository.Add(ctx, a)
}

func (s *spyPeers) UpdateScore(ctx context.Context, a string, d int32) bool {
	s.mu.Lock()
	s.scores = append(s.scores, fmt.Sprintf("%s%+d", a, d))
	s.mu.Unlock()
	return s.StoragePeerRepository.UpdateScore(ctx, a, d)
}

func (s *spyPeers) UpdateTime(ctx context.Context, a string) bool {
	s.mu.Lock()
	s.updates++
	s.mu.Unlock()
	return s.StoragePeerRepository.UpdateTime(ctx, a)
}

func (s *spyPeers) counts() (adds, scores int) {
	s.mu.Lock()
	defer s.mu.Unlock()
	return len(s.adds), len(s.scores)
}

type Opts struct {
	// Fragment: the scripted peer writes everything in pieces of these sizes (see p2p.Peer.Fragment)
	Fragment   []int
	VerifyOnly bool
	TxManager  *bitcoin_reader.TxManager
	Headers    *spyHeaders // shared between sessions when set
	Peers      *spyPeers
	// HeaderHandler installs an application header handler (SetHeaderHandler), as a user of the
	// library that wants to see headers messages itself would: it parses count and headers from
	// the tee'd stream until the stream ends.
	HeaderHandler bool
	// PeerRcvBuf > 0: the scripted peer's socket has a receive buffer of that many bytes
	PeerRcvBuf int
}

// genFragment draws how the scripted peer's writes are cut into pieces: in half of the cases not at
// all, otherwise 1..4 piece sizes used cyclically over the first 160 bytes of every send.
func genFragment(t *rapid.T) []int {
	if rapid.Bool().Draw(t, "fragmented") {
		return rapid.SliceOfN(rapid.SampledFrom(p2p.GenFragmentSizes), 1, 4).Draw(t, "pieces")
	}
	return nil
}

// appHeaderHandler reads a headers payload the way an application handler does.
func appHeaderHandler(ctx context.Context, header *wire.MessageHeader, r io.Reader) error {
	count, err := wire.ReadVarInt(r, wire.ProtocolVersion)
	if err != nil {
		return err
	}
	buf := make([]byte, 81)
	for i := uint64(0); i < count; i++ {
		if _, err := io.ReadFull(r, buf); err != nil {
			return err
		}
	}
	return nil
}

type Session struct {
	Peer      *p2p.Peer
	Node      *bitcoin_reader.BitcoinNode
	Headers   *spyHeaders
	Peers     *spyPeers
	interrupt chan interface{}
	done      chan error
	stopped   bool
}

func newHeaders() *spyHeaders {
	repo := headers.NewRepository(headers.DefaultConfig(), memstore.New())
	repo.DisableDifficulty()
	repo.InitializeWithGenesis()
	return &spyHeaders{Repository: repo}
}

func newPeers() *spyPeers {
	return &spyPeers{StoragePeerRepository: bitcoin_reader.NewPeerRepository(memstore.New(), "")}
}

func nodeConfig() *bitcoin_reader.Config {
	cfg := bitcoin_reader.DefaultConfig()
	cfg.Timeout = config.NewDuration(time.Hour)
	cfg.Network = bitcoin.MainNet
	return cfg
}

// Start listens, starts a real BitcoinNode.Run towards the listener and accepts its connection.
func Start(t failer, o Opts) *Session {
	peer, err := p2p.ListenBuf(o.PeerRcvBuf)
	if err != nil {
		t.Fatalf("listen: %s", err)
	}
	peer.Fragment = o.Fragment
	s := &Session{Peer: peer, Headers: o.Headers, Peers: o.Peers, interrupt: make(chan interface{}), done: make(chan error, 1)}
	if s.Headers == nil {
		s.Headers = newHeaders()
	}
	if s.Peers == nil {
		s.Peers = newPeers()
	}
	s.Node = bitcoin_reader.NewBitcoinNode(peer.Addr(), "/verif:1/", nodeConfig(), s.Headers, s.Peers)
	if o.VerifyOnly {
		s.Node.SetVerifyOnly()
	}
	if o.TxManager != nil {
		s.Node.SetTxManager(o.TxManager)
	}
	if o.HeaderHandler {
		s.Node.SetHeaderHandler(appHeaderHandler)
	}
	go func() { s.done <- s.Node.Run(vt.Ctx(), s.interrupt) }()
	if err := peer.Accept(10 * time.Second); err != nil {
		t.Fatalf("%s: node did not connect: %s", p2p.SetupFailure, err)
	}
	return s
}

const stageTimeout = 10 * time.Second

// Handshake performs version/verack from the peer side and waits for the node's verification
// request (stage S2: handshake complete, verification pending).
func (s *Session) Handshake(t failer) {
	if !s.Peer.WaitCommand("version", 1, stageTimeout) {
		t.Fatalf("setup: node did not send version")
	}
	s.Peer.Send(p2p.Version(0), p2p.Verack())
	if !s.Peer.WaitCommand("getheaders", 1, stageTimeout) {
		t.Fatalf("setup: node did not send the verification getheaders (received %v)", cmds(s.Peer.Received()))
	}
}

// Verify answers the verification request with the BSV split header (stage S3 for a full node).
func (s *Session) Verify(t failer) {
	s.Peer.Send(p2p.Headers([]model.RawHeader{bsvHeader()}))
	deadline := time.Now().Add(stageTimeout)
	for !s.Node.Verified() {
		if time.Now().After(deadline) {
			t.Fatalf("setup: node did not verify the BSV split header")
		}
		time.Sleep(time.Millisecond)
	}
}

// Ready brings a full node to stage S3 and waits for the messages it sends on acceptance.
func (s *Session) Ready(t failer) {
	s.Handshake(t)
	s.Verify(t)
	if !s.Peer.WaitCommand("addr", 1, stageTimeout) {
		t.Fatalf("setup: node did not finish its acceptance messages (received %v)", cmds(s.Peer.Received()))
	}
}

func bsvHeader() model.RawHeader {
	h := headers.MainNetRequiredHeader
	return model.RawHeader{Version: h.Version, Prev: model.Hash(h.PrevBlock), Merkle: model.Hash(h.MerkleRoot),
		Timestamp: h.Timestamp, Bits: h.Bits, Nonce: h.Nonce}
}

func cmds(fs []p2p.Frame) []string {
	r := make([]string, len(fs))
	for i, f := range fs {
		r[i] = f.Command
	}
	return r
}

// Finish closes the peer side, interrupts the node and reports whether Run returned in time.
func (s *Session) Finish(bound time.Duration) bool {
	if s.stopped {
		return true
	}
	s.stopped = true
	t0 := time.Now()
	s.Peer.Close()
	close(s.interrupt)
	select {
	case <-s.done:
		if d := time.Since(t0); d > 50*time.Millisecond && os.Getenv("VERIF_TIMING") != "" {
			fmt.Printf("SLOWFINISH %v\n", d)
		}
		return true
	case <-time.After(bound):
		return false
	}
}

// RunReturned waits for Run to return without interrupting it (after the peer closed).
func (s *Session) RunReturned(bound time.Duration) bool {
	select {
	case err := <-s.done:
		s.done <- err
		return true
	case <-time.After(bound):
		return false
	}
}

func TestSmoke_session(t *testing.T) {
	s := Start(t, Opts{})
	s.Ready(t)
	if !s.Node.IsReady() {
		t.Fatalf("not ready")
	}
	s.Peer.Send(p2p.Ping(42))
	if !s.Peer.WaitPong(42, 5*time.Second) {
		t.Fatalf("no pong; received %v", cmds(s.Peer.Received()))
	}
	t.Logf("received: %v", cmds(s.Peer.Received()))
	if !s.Finish(10 * time.Second) {
		t.Fatalf("Run did not return")
	}
}

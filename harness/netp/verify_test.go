package netp

import (
	"fmt"
	"sync/atomic"
	"testing"
	"time"

	"verifharness/internal/evid"
	"verifharness/internal/fix"
	"verifharness/internal/model"
	"verifharness/internal/p2p"
	"verifharness/internal/spy"
	"verifharness/internal/vt"

	"github.com/google/uuid"
	bitcoin_reader "github.com/tokenized/bitcoin_reader"
	"github.com/tokenized/pkg/bitcoin"
	"pgregory.net/rapid"
)

const bound = 10 * time.Second

// closeBound bounds "the node must hang up now" observations (typical latency: well under 1 ms).
const closeBound = 3 * time.Second

// After a first "did not hang up" failure the remaining attempts of the same process (rapid's
// shrinking) wait only briefly, otherwise minimising one failure costs minutes.
var noCloseSeen atomic.Bool

func closeWait() time.Duration {
	if noCloseSeen.Load() {
		return 300 * time.Millisecond
	}
	return closeBound
}

func randomHeader(t *rapid.T, label string) model.RawHeader {
	var h model.RawHeader
	h.Version = rapid.Int32().Draw(t, label+"v")
	b := rapid.SliceOfN(rapid.Byte(), 64, 64).Draw(t, label+"hashes")
	copy(h.Prev[:], b[:32])
	copy(h.Merkle[:], b[32:])
	h.Timestamp = rapid.Uint32().Draw(t, label+"t")
	h.Bits = rapid.SampledFrom([]uint32{0x1d00ffff, 0x18021fdb, 0x207fffff, 0x01010000, 0}).Draw(t, label+"bits")
	h.Nonce = rapid.Uint32().Draw(t, label+"n")
	return h
}

// genesisChild is a header the (difficulty-disabled) repository of a session would accept.
func genesisChild(n uint32) model.RawHeader {
	h := model.RawHeader{Version: 1, Prev: model.Hash(h32("000000000019d6689c085ae165831e934ff763ae46a2a6c172b3f1b60a8ce26f")), Timestamp: 1231006505 + 600, Bits: 0x1d00ffff, Nonce: n}
	h.Merkle[0] = 0x3C
	return h
}

func h32(s string) bitcoin.Hash32 {
	h, err := bitcoin.NewHash32FromStr(s)
	if err != nil {
		panic(err)
	}
	return *h
}

const ruleC03peer = "a real BitcoinNode (full or verify-only) is run over loopback TCP against a scripted peer, brought to the point where it has sent its verification getheaders, and answered with a drawn reply: a headers message with 0..5 headers whose FIRST header is one of {BSV split header, BCH split header, random, another real mainnet header, an acceptable child of genesis, the BSV header with one field mutated} and whose remaining headers are arbitrary (including the BSV header in second place), or no reply followed by a close; in half of the cases everything the scripted peer writes is cut into pieces of 1..100 bytes over the first 160 bytes of each send (TCP segmentation at arbitrary offsets); oracle: Verified()/IsReady() become true exactly when the first header is the BSV split header; in every other case the node closes the connection (peer observes EOF), never becomes ready and the header repository is untouched (no ProcessHeader call, tip unchanged); a verify-only node disconnects after success without sending sendheaders/getaddr/getheaders/addr; non-trivial = empty reply, or BSV header in second place, or a mutated BSV header, or BCH first; distinct = (node kind, first-header kind, count, tail kinds)"

func TestProp_C03_peer(t *testing.T) {
	col := evid.For("C03", "peer", ruleC03peer)
	fx := fix.Fixtures()[0]
	rapid.Check(t, func(t *rapid.T) {
		k := col.NewCase()
		verifyOnly := rapid.Bool().Draw(t, "verifyOnly")
		s := Start(t, Opts{VerifyOnly: verifyOnly, Fragment: genFragment(t)})
		defer s.Finish(bound)
		s.Handshake(t)
		kind := rapid.SampledFrom([]string{"bsv", "bsv", "bch", "random", "real", "acceptable", "bsv-mutated", "empty", "silent-close"}).Draw(t, "first")
		count := rapid.IntRange(1, 5).Draw(t, "count")
		var hs []model.RawHeader
		tail := []string{}
		switch kind {
		case "bsv":
			hs = append(hs, bsvHeader())
		case "bch":
			hs = append(hs, fix.FromWire(fix.BCHSplitHeader(h32(fix.SplitBefore))))
		case "random":
			hs = append(hs, randomHeader(t, "first"))
		case "real":
			i := rapid.IntRange(0, len(fx.Headers)-1).Draw(t, "realIdx")
			if i == 767 {
				i = 768
			}
			hs = append(hs, fix.FromWire(fx.Headers[i]))
		case "acceptable":
			hs = append(hs, genesisChild(1))
		case "bsv-mutated":
			m := bsvHeader()
			switch rapid.IntRange(0, 5).Draw(t, "field") {
			case 0:
				m.Version ^= 1
			case 1:
				m.Prev[0] ^= 1
			case 2:
				m.Merkle[31] ^= 0x80
			case 3:
				m.Timestamp--
			case 4:
				m.Bits ^= 1
			case 5:
				m.Nonce++
			}
			hs = append(hs, m)
		}
		if kind != "empty" && kind != "silent-close" {
			for len(hs) < count {
				tk := rapid.SampledFrom([]string{"bsv", "random", "acceptable"}).Draw(t, "tail")
				tail = append(tail, tk)
				switch tk {
				case "bsv":
					hs = append(hs, bsvHeader())
				case "random":
					hs = append(hs, randomHeader(t, "tail"))
				case "acceptable":
					hs = append(hs, genesisChild(uint32(len(hs)+10)))
				}
			}
		}
		tipBefore := s.Headers.LastHash()
		if kind == "silent-close" {
			s.Peer.Close()
		} else {
			s.Peer.Send(p2p.Headers(hs))
		}
		wantVerified := kind == "bsv"
		k.Op("verifyOnly=%v first=%s n=%d tail=%v", verifyOnly, kind, len(hs), tail)
		if wantVerified {
			deadline := time.Now().Add(bound)
			for !s.Node.Verified() {
				if time.Now().After(deadline) {
					t.Fatalf("node did not verify a peer whose first header is the BSV split header (count %d)", len(hs))
				}
				time.Sleep(200 * time.Microsecond)
			}
			if verifyOnly {
				if !s.Peer.WaitClosed(closeBound) {
					t.Fatalf("verify-only node did not disconnect after verification")
				}
				for _, c := range []string{"sendheaders", "getaddr", "addr"} {
					if s.Peer.Count(c) > 0 {
						t.Fatalf("verify-only node sent %q after verification", c)
					}
				}
				if n := s.Peer.Count("getheaders"); n != 1 {
					t.Fatalf("verify-only node sent %d getheaders", n)
				}
			} else {
				if !s.Peer.WaitCommand("addr", 1, bound) {
					t.Fatalf("full node did not complete acceptance")
				}
				if !s.Node.IsReady() {
					t.Fatalf("full node verified but not ready")
				}
				s.Peer.Send(p2p.Ping(7))
				if !s.Peer.WaitPong(7, bound) {
					t.Fatalf("verified node does not answer ping")
				}
			}
		} else {
			if kind != "silent-close" && !s.Peer.WaitClosed(closeWait()) {
				noCloseSeen.Store(true)
				t.Fatalf("node did not disconnect a peer whose reply was %q (first of %d headers)", kind, len(hs))
			}
			if !s.RunReturned(bound) {
				t.Fatalf("Run did not return after a failed verification (%s)", kind)
			}
			if s.Node.Verified() || s.Node.IsReady() {
				t.Fatalf("node treats a peer as verified/ready after reply %q (verified=%v ready=%v)", kind, s.Node.Verified(), s.Node.IsReady())
			}
		}
		// the verification reply never reaches the header repository
		if n := s.Headers.processed(); n != 0 {
			t.Fatalf("verification reply %q caused %d ProcessHeader calls", kind, n)
		}
		if tip := s.Headers.LastHash(); !tip.Equal(&tipBefore) {
			t.Fatalf("verification reply changed the header repository tip")
		}
		tailBSV := false
		for _, tk := range tail {
			if tk == "bsv" {
				tailBSV = true
			}
		}
		k.NonTrivial = kind == "empty" || kind == "bsv-mutated" || kind == "bch" || (kind != "bsv" && tailBSV)
		k.Done()
	})
}

// ---------------------------------------------------------------------------------------------
// C13

type preMsg struct {
	kind  string
	frame p2p.Frame
	txid  *model.Hash
}

func genPreMsg(t *rapid.T, i int, stage int, hsDone bool) preMsg {
	kinds := []string{"headers", "headers", "addr", "inv", "inv", "tx", "block", "ext-tx", "ext-block", "ext-unknown", "getaddr", "ping", "protoconf", "version", "verack", "unknown", "pong", "reject"}
	if stage < 2 && !hsDone {
		// before the peer has sent what completes the handshake even the BSV split header must not verify the peer
		kinds = append(kinds, "headers-bsv", "headers-bsv")
	}
	kind := rapid.SampledFrom(kinds).Draw(t, "msg")
	m := preMsg{kind: kind}
	switch kind {
	case "headers-bsv":
		m.frame = p2p.Headers([]model.RawHeader{bsvHeader()})
	case "headers":
		n := rapid.IntRange(1, 3).Draw(t, "nh")
		var hs []model.RawHeader
		for j := 0; j < n; j++ {
			hs = append(hs, genesisChild(uint32(100+i*10+j))) // headers the repository would accept
		}
		m.frame = p2p.Headers(hs)
	case "addr":
		m.frame = p2p.Addr(rapid.IntRange(1, 5).Draw(t, "na"))
	case "inv":
		tx := p2p.Tx(uint32(500+i), 80)
		id := p2p.TxID(tx)
		m.txid = &id
		m.frame = p2p.Inv(1, []model.Hash{id})
	case "tx", "ext-tx":
		tx := p2p.Tx(uint32(700+i), rapid.IntRange(70, 400).Draw(t, "txsize"))
		id := p2p.TxID(tx)
		m.txid = &id
		m.frame = p2p.TxFrame(tx, kind == "ext-tx")
	case "block", "ext-block":
		tx := p2p.Tx(uint32(900+i), 90)
		h := genesisChild(uint32(3000 + i))
		h.Merkle = p2p.TxID(tx)
		m.frame = p2p.Block(h, nil, 1, kind == "ext-block")
		m.frame.Payload = append(m.frame.Payload, p2p.TxBytes(tx)...)
	case "ext-unknown":
		m.frame = p2p.Frame{Command: "weird", Payload: rapid.SliceOfN(rapid.Byte(), 0, 50).Draw(t, "p"), Extended: true}
	case "getaddr":
		m.frame = p2p.GetAddr()
	case "ping":
		m.frame = p2p.Ping(uint64(i))
	case "pong":
		m.frame = p2p.Pong(uint64(i))
	case "protoconf":
		m.frame = p2p.Protoconf()
	case "version":
		m.frame = p2p.Version(0)
	case "verack":
		m.frame = p2p.Verack()
	case "unknown":
		m.frame = p2p.Frame{Command: "zzz", Payload: rapid.SliceOfN(rapid.Byte(), 0, 50).Draw(t, "p")}
	case "reject":
		// a reject names one of the messages the NODE sent (or anything else) with a drawn code and reason, and a
		// hash when it is about a tx or block
		cmd := rapid.SampledFrom([]string{"version", "verack", "getheaders", "getdata", "ping", "pong", "protoconf", "sendheaders", "getaddr", "tx", "block", "zzz", ""}).Draw(t, "rejcmd")
		code := rapid.SampledFrom([]byte{0x01, 0x10, 0x11, 0x12, 0x40, 0x41, 0x42, 0x43}).Draw(t, "rejcode")
		reason := rapid.SampledFrom([]string{"", "bad", "obsolete version", "duplicate"}).Draw(t, "rejreason")
		pl := append(p2p.VarInt(uint64(len(cmd))), cmd...)
		pl = append(pl, code)
		pl = append(pl, p2p.VarInt(uint64(len(reason)))...)
		pl = append(pl, reason...)
		if cmd == "tx" || cmd == "block" {
			id := p2p.TxID(p2p.Tx(uint32(1100+i), 80))
			pl = append(pl, id[:]...)
		}
		m.frame = p2p.Frame{Command: "reject", Payload: pl}
	}
	return m
}

const ruleC13 = "a real BitcoinNode (full or verify-only, with a TxManager whose processor is a recording spy) is run over loopback TCP against a scripted peer and stopped at a drawn stage BEFORE verification (S0 connected / S1 peer version sent / S2 handshake complete, verification pending); the peer then sends a drawn sequence (0..10) over {headers the repository WOULD accept, the BSV split header itself while the handshake is still incomplete, addr, inv, tx, block, extended tx/block/unknown, getaddr, ping, pong, protoconf, repeated version, early/duplicate verack, unknown, reject naming a drawn command (any the node itself sends: version, verack, getheaders, getdata, ping, ...; or tx/block with a hash) with a drawn code and reason}; in half of the cases everything the scripted peer writes is cut into pieces of 1..100 bytes over the first 160 bytes of each send (TCP segmentation at arbitrary offsets); oracle: zero ProcessHeader calls, zero address-book Add/UpdateScore calls, the transaction manager still treats every announced/delivered txid as never seen (AddTxID from another peer id returns true) and the processor saw no transaction, and the peer received no getheaders besides the verification request and no getdata; non-vacuity: the same generators drive the positive control (TestRegr_C13_positive_control) where the messages sent AFTER verification do reach the spies; non-trivial = sequence containing at least two of {acceptable headers, addr, inv/tx}; distinct = (node kind, stage, message kind list)"

func TestProp_C13_preverify(t *testing.T) {
	col := evid.For("C13", "preverify", ruleC13)
	rapid.Check(t, func(t *rapid.T) {
		k := col.NewCase()
		ctx := vt.Ctx()
		verifyOnly := rapid.Bool().Draw(t, "verifyOnly")
		stage := rapid.IntRange(0, 2).Draw(t, "stage")
		log := spy.NewLog()
		txm := bitcoin_reader.NewTxManager(time.Hour)
		txm.SetTxProcessor(spy.Processor{L: log})
		txm.SetTxSaver(spy.Saver{L: log})
		txDone := make(chan error, 1)
		go func() { txDone <- txm.Run(ctx) }()
		s := Start(t, Opts{VerifyOnly: verifyOnly, TxManager: txm, Fragment: genFragment(t)})
		defer func() {
			s.Finish(bound)
			txm.Stop(ctx)
			<-txDone
		}()
		switch stage {
		case 1:
			if !s.Peer.WaitCommand("version", 1, stageTimeout) {
				t.Fatalf("setup: no version")
			}
			s.Peer.Send(p2p.Version(0))
		case 2:
			s.Handshake(t)
		}
		n := rapid.IntRange(0, 10).Draw(t, "n")
		var kinds []string
		var txids []model.Hash
		versions := 0
		for i := 0; i < n; i++ {
			m := genPreMsg(t, i, stage, handshakeCompletes(kinds, stage))
			if m.kind == "version" || m.kind == "verack" {
				versions++
				if versions > 6 {
					continue // flooding the handshake channel is C15's subject
				}
			}
			kinds = append(kinds, m.kind)
			if m.txid != nil {
				txids = append(txids, *m.txid)
			}
			if err := s.Peer.Send(m.frame); err != nil {
				break // node already hung up
			}
		}
		// Let the node consume what it is going to consume: a trailing ping is answered while the
		// connection is in sync; otherwise wait for the close.
		s.Peer.Send(p2p.Ping(0xC13))
		s.Peer.WaitFor(2*time.Second, func(got []p2p.Frame, closed bool) bool {
			if closed {
				return true
			}
			for _, f := range got {
				if f.Command == "pong" && len(f.Payload) == 8 && f.Payload[0] == 0x13 && f.Payload[1] == 0x0C {
					return true
				}
			}
			return false
		})
		k.Op("verifyOnly=%v stage=%d msgs=%v", verifyOnly, stage, kinds)
		if s.Node.Verified() || s.Node.IsReady() {
			t.Fatalf("node verified/ready without a verification reply (stage %d, %v)", stage, kinds)
		}
		if c := s.Headers.processed(); c != 0 {
			t.Fatalf("%d headers reached the header repository before verification (stage %d, %v)", c, stage, kinds)
		}
		if adds, scores := s.Peers.counts(); adds != 0 || scores != 0 {
			t.Fatalf("address book touched before verification: %d Add, %d UpdateScore (stage %d, %v)", adds, scores, stage, kinds)
		}
		if c := log.Count("ProcessTx") + log.Count("SaveTx"); c != 0 {
			t.Fatalf("%d transactions reached the processor before verification (%v)", c, kinds)
		}
		other := uuid.New()
		for _, id := range txids {
			fresh, err := txm.AddTxID(ctx, other, bitcoin.Hash32(id))
			if err != nil || !fresh {
				t.Fatalf("transaction manager already knows txid %s announced before verification (%v)", id, kinds)
			}
		}
		if c := s.Peer.Count("getdata"); c != 0 {
			t.Fatalf("node sent %d getdata before verification (%v)", c, kinds)
		}
		maxGH := 0
		if stage == 2 {
			maxGH = 1
		}
		if c := s.Peer.Count("getheaders"); c > maxGH+boolInt(stage < 2 && handshakeCompletes(kinds, stage)) {
			t.Fatalf("node sent %d getheaders before verification (stage %d, %v)", c, stage, kinds)
		}
		classes := 0
		for _, group := range [][]string{{"headers"}, {"addr"}, {"inv", "tx", "ext-tx"}} {
			for _, kd := range kinds {
				if contains(group, kd) {
					classes++
					break
				}
			}
		}
		k.NonTrivial = classes >= 2
		k.Done()
	})
}

func boolInt(b bool) int {
	if b {
		return 1
	}
	return 0
}

func contains(l []string, s string) bool {
	for _, x := range l {
		if x == s {
			return true
		}
	}
	return false
}

// handshakeCompletes: from stage 0/1 the generated version/verack messages can legitimately
// complete the handshake, after which the node sends its (single) verification getheaders.
func handshakeCompletes(kinds []string, stage int) bool {
	return contains(kinds, "verack") && (stage == 1 || contains(kinds, "version"))
}

// TestRegr_C13_positive_control: the messages C13 sends before verification DO reach the header
// repository, the address book and the transaction manager when sent after verification, so the
// spies and generators of the property are not vacuous.
func TestRegr_C13_positive_control(t *testing.T) {
	ctx := vt.Ctx()
	log := spy.NewLog()
	txm := bitcoin_reader.NewTxManager(time.Hour)
	txm.SetTxProcessor(spy.Processor{L: log})
	go txm.Run(ctx)
	defer txm.Stop(ctx)
	s := Start(t, Opts{TxManager: txm})
	defer s.Finish(bound)
	s.Ready(t)
	tx := p2p.Tx(1, 100)
	tx2 := p2p.Tx(2, 100)
	s.Peer.Send(p2p.Headers([]model.RawHeader{genesisChild(1)}), p2p.Addr(3), p2p.Inv(1, []model.Hash{p2p.TxID(tx)}), p2p.TxFrame(tx2, false), p2p.Ping(5))
	if !s.Peer.WaitPong(5, bound) {
		t.Fatalf("no pong: %v", cmds(s.Peer.Received()))
	}
	if s.Headers.processed() != 1 {
		t.Fatalf("headers after verification: %d ProcessHeader calls", s.Headers.processed())
	}
	if adds, _ := s.Peers.counts(); adds != 3 {
		t.Fatalf("addr after verification: %d Add calls", adds)
	}
	if s.Peer.Count("getdata") != 1 {
		t.Fatalf("inv after verification: %d getdata", s.Peer.Count("getdata"))
	}
	deadline := time.Now().Add(bound)
	for log.Count("ProcessTx") != 1 && time.Now().Before(deadline) {
		time.Sleep(time.Millisecond)
	}
	if log.Count("ProcessTx") != 1 {
		t.Fatalf("tx after verification: %d ProcessTx", log.Count("ProcessTx"))
	}
	_ = fmt.Sprint
}

const ruleC13mgr = "a NodeManager (real) finds the scripted peer's loopback address in its address book and runs a BitcoinNode towards it; the peer holds the session at a drawn pre-verification stage (S0/S1/S2) while RequestHeaders, RequestTxs and RequestBlock are called on the manager in a drawn order; oracle: the unverified node is never selected - no getheaders beyond the verification request and no getdata reach the peer and RequestBlock reports that no node is available; positive control in the same case: after the peer verifies, RequestHeaders does reach it; non-trivial = stage S2 (handshake complete, verification pending) with all three requests issued; distinct = (stage, request order)"

func TestProp_C13_manager(t *testing.T) {
	col := evid.For("C13", "manager", ruleC13mgr)
	rapid.Check(t, func(t *rapid.T) {
		k := col.NewCase()
		ctx := vt.Ctx()
		peer, err := p2p.Listen()
		if err != nil {
			t.Fatalf("listen: %s", err)
		}
		defer peer.Close()
		hdrs, book := newHeaders(), newPeers()
		book.StoragePeerRepository.Add(ctx, peer.Addr())
		cfg := nodeConfig()
		cfg.DesiredNodeCount = 4
		mgr := bitcoin_reader.NewNodeManager("/verif:1/", cfg, hdrs, book)
		txm := bitcoin_reader.NewTxManager(time.Hour)
		mgr.SetTxManager(txm)
		if _, err := mgr.FindByScore(ctx, 0, 1); err != nil {
			t.Fatalf("FindByScore: %s", err)
		}
		defer func() {
			mgr.Stop(ctx)
			done := make(chan struct{})
			go func() { mgr.Wait(ctx); close(done) }()
			select {
			case <-done:
			case <-time.After(bound):
			}
		}()
		if err := peer.Accept(bound); err != nil {
			t.Fatalf("%s: manager's node did not connect: %s", p2p.SetupFailure, err)
		}
		stage := rapid.IntRange(0, 2).Draw(t, "stage")
		if !peer.WaitCommand("version", 1, stageTimeout) {
			t.Fatalf("setup: no version")
		}
		if stage >= 1 {
			peer.Send(p2p.Version(0))
		}
		if stage == 2 {
			peer.Send(p2p.Verack())
			if !peer.WaitCommand("getheaders", 1, stageTimeout) {
				t.Fatalf("setup: no verification request")
			}
		}
		order := rapid.Permutation([]string{"headers", "txs", "block"}).Draw(t, "order")
		for _, r := range order {
			switch r {
			case "headers":
				mgr.RequestHeaders(ctx)
			case "txs":
				mgr.RequestTxs(ctx)
			case "block":
				_, err := mgr.RequestBlock(ctx, hdrs.LastHash(), nil, nil)
				if err == nil {
					t.Fatalf("RequestBlock was served by an unverified node (stage %d)", stage)
				}
			}
		}
		peer.Send(p2p.Ping(0x77))
		peer.WaitPong(0x77, 2*time.Second)
		want := 0
		if stage == 2 {
			want = 1
		}
		if c := peer.Count("getheaders"); c != want {
			t.Fatalf("unverified node at stage %d received %d getheaders after %v", stage, c, order)
		}
		if c := peer.Count("getdata"); c != 0 {
			t.Fatalf("unverified node received %d getdata", c)
		}
		// positive control: once verified the same request reaches the peer
		if stage < 1 {
			peer.Send(p2p.Version(0))
		}
		if stage < 2 {
			peer.Send(p2p.Verack())
		}
		if !peer.WaitCommand("getheaders", 1, stageTimeout) {
			t.Fatalf("control: no verification request")
		}
		peer.Send(p2p.Headers([]model.RawHeader{bsvHeader()}))
		if !peer.WaitCommand("addr", 1, stageTimeout) {
			t.Fatalf("control: node not accepted: %v", cmds(peer.Received()))
		}
		before := peer.Count("getheaders")
		mgr.RequestHeaders(ctx)
		if !peer.WaitCommand("getheaders", before+1, bound) {
			t.Fatalf("control: RequestHeaders did not reach the verified node")
		}
		k.Op("stage=%d order=%v", stage, order)
		k.NonTrivial = stage == 2
		k.Done()
	})
}

// ---------------------------------------------------------------------------------------------
// C13, last clause: a verify-only connection disconnects as soon as verification succeeds.

const ruleC13vo = "a verify-only BitcoinNode (with or without a TxManager, with or without an application header handler) is run against the scripted peer, which completes the handshake, optionally sends a few harmless messages, answers the verification request with the BSV split header and then keeps sending what a normal peer sends (addr, inv, headers the repository would accept, tx, ping); oracle: the node reports Verified, hangs up within 3 s of the reply and sends no getheaders/getdata/getaddr after the verification request (what the peer sends after it has been verified may or may not still be handled while the node stops: the statement does not say); non-trivial = TxManager present or messages sent after the reply; distinct = (txManager, headerHandler, message kinds)"

func TestProp_C13_verifyonly(t *testing.T) {
	col := evid.For("C13", "verifyonly", ruleC13vo)
	rapid.Check(t, func(t *rapid.T) {
		k := col.NewCase()
		ctx := vt.Ctx()
		withTxm := rapid.Bool().Draw(t, "txManager")
		withHH := rapid.Bool().Draw(t, "headerHandler")
		log := spy.NewLog()
		var txm *bitcoin_reader.TxManager
		if withTxm {
			txm = bitcoin_reader.NewTxManager(time.Hour)
			txm.SetTxProcessor(spy.Processor{L: log})
			txm.SetTxSaver(spy.Saver{L: log})
			txDone := make(chan error, 1)
			go func() { txDone <- txm.Run(ctx) }()
			defer func() {
				txm.Stop(ctx)
				<-txDone
			}()
		}
		s := Start(t, Opts{VerifyOnly: true, TxManager: txm, HeaderHandler: withHH})
		defer s.Finish(bound)
		s.Handshake(t)
		ghBefore := s.Peer.Count("getheaders")
		s.Peer.Send(p2p.Headers([]model.RawHeader{bsvHeader()}))
		n := rapid.IntRange(0, 5).Draw(t, "after")
		var kinds []string
		for i := 0; i < n; i++ {
			m := genPreMsg(t, i, 2, true)
			if m.kind == "version" || m.kind == "verack" {
				continue
			}
			kinds = append(kinds, m.kind)
			if err := s.Peer.Send(m.frame); err != nil {
				break
			}
		}
		closed := s.Peer.WaitClosed(closeBound)
		k.Op("txm=%v hh=%v after=%v", withTxm, withHH, kinds)
		if !closed {
			t.Fatalf("verify-only node (txManager=%v headerHandler=%v) did not hang up within %s of the verification reply; messages sent after it: %v", withTxm, withHH, closeBound, kinds)
		}
		if !s.Node.Verified() {
			t.Fatalf("verify-only node hung up without reporting the peer verified")
		}
		if c := s.Peer.Count("getheaders"); c > ghBefore {
			t.Fatalf("verify-only node sent %d more getheaders after the verification request (%v)", c-ghBefore, kinds)
		}
		if c := s.Peer.Count("getdata") + s.Peer.Count("getaddr"); c != 0 {
			t.Fatalf("verify-only node sent getdata/getaddr (%d) (%v)", c, kinds)
		}
		k.NonTrivial = withTxm || len(kinds) > 0
		k.Done()
	})
}

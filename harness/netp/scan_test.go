package netp

import (
	"testing"
	"time"

	"verifharness/internal/evid"
	"verifharness/internal/model"
	"verifharness/internal/p2p"
	"verifharness/internal/vt"

	bitcoin_reader "github.com/tokenized/bitcoin_reader"
	"pgregory.net/rapid"
)

// ---------------------------------------------------------------------------------------------
// C13, scan leg: the verify-only connections NodeManager.Scan opens to address-book candidates.

const ruleC13scan = "a real NodeManager (with or without a TxManager) whose address book (a recording spy) lists 1..3 scripted peers calls Scan: it runs a verify-only BitcoinNode towards each; every peer holds its session at a drawn pre-verification stage (S0 connected / S1 peer version sent / S2 handshake complete) and sends a drawn sequence (0..8) of the pre-verification messages of the preverify leg (acceptable headers, addr, inv, tx, block, extended frames, getaddr, ping, pong, protoconf, repeated version/verack, unknown, reject), writes fragmented in half of the cases; oracle: zero ProcessHeader calls at the shared header repository, zero address-book Add/UpdateScore calls, no getdata and no getheaders besides the verification request at any peer, RequestHeaders/RequestTxs/RequestBlock on the manager reach none of them; then one peer answers the verification request with the required split header: that connection is closed by the node within the bound without sendheaders/getaddr/addr/getheaders (a verify-only connection disconnects as soon as verification succeeds); non-trivial = an addr, acceptable headers or inv/tx among the messages; distinct = (peers, stages, message kinds)"

func TestProp_C13_scan(t *testing.T) {
	col := evid.For("C13", "scan", ruleC13scan)
	rapid.Check(t, func(t *rapid.T) {
		k := col.NewCase()
		ctx := vt.Ctx()
		nPeers := rapid.IntRange(1, 3).Draw(t, "peers")
		hdrs, book := newHeaders(), newPeers()
		fragment := genFragment(t)
		var peers []*p2p.Peer
		for i := 0; i < nPeers; i++ {
			p, err := p2p.Listen()
			if err != nil {
				t.Fatalf("%s: listen: %s", p2p.SetupFailure, err)
			}
			defer p.Close()
			p.Fragment = fragment
			peers = append(peers, p)
			book.StoragePeerRepository.Add(ctx, p.Addr())
		}
		cfg := nodeConfig()
		mgr := bitcoin_reader.NewNodeManager("/verif:1/", cfg, hdrs, book)
		withTxm := rapid.Bool().Draw(t, "txm")
		var txm *bitcoin_reader.TxManager
		if withTxm {
			txm = bitcoin_reader.NewTxManager(time.Hour)
			mgr.SetTxManager(txm)
		}
		if err := mgr.Scan(ctx); err != nil {
			t.Fatalf("Scan: %s", err)
		}
		defer func() {
			for _, p := range peers {
				p.Close()
			}
			mgr.Stop(ctx)
			done := make(chan struct{})
			go func() { mgr.Wait(ctx); close(done) }()
			select {
			case <-done:
			case <-time.After(bound):
			}
		}()
		interesting := false
		var desc []string
		stages := make([]int, nPeers)
		for i, p := range peers {
			if err := p.Accept(bound); err != nil {
				t.Fatalf("%s: scan node %d did not connect: %s", p2p.SetupFailure, i, err)
			}
			stage := rapid.IntRange(0, 2).Draw(t, "stage")
			stages[i] = stage
			if !p.WaitCommand("version", 1, stageTimeout) {
				t.Fatalf("setup: peer %d: no version", i)
			}
			if stage >= 1 {
				p.Send(p2p.Version(0))
			}
			if stage == 2 {
				p.Send(p2p.Verack())
				if !p.WaitCommand("getheaders", 1, stageTimeout) {
					t.Fatalf("setup: peer %d: no verification request", i)
				}
			}
			n := rapid.IntRange(0, 8).Draw(t, "n")
			var kinds []string
			versions := 0
			for j := 0; j < n; j++ {
				m := genPreMsg(t, 10*i+j, 2, true) // never the BSV header: verification is a separate step below
				if m.kind == "version" || m.kind == "verack" {
					versions++
					if versions > 4 || stage < 2 {
						continue // completing the handshake here would change the stage
					}
				}
				switch m.kind {
				case "headers", "addr", "inv", "tx", "ext-tx":
					interesting = true
				}
				kinds = append(kinds, m.kind)
				if err := p.Send(m.frame); err != nil {
					break
				}
			}
			p.Send(p2p.Ping(0xC13))
			p.WaitFor(2*time.Second, func(got []p2p.Frame, closed bool) bool {
				if closed {
					return true
				}
				for _, f := range got {
					if f.Command == "pong" && len(f.Payload) == 8 && f.Payload[0] == 0x13 && f.Payload[1] == 0x0C {
						return true
					}
				}
				return false
			})
			desc = append(desc, kindsDesc(stage, kinds))
		}
		mgr.RequestHeaders(ctx)
		mgr.RequestTxs(ctx)
		if _, err := mgr.RequestBlock(ctx, hdrs.LastHash(), nil, nil); err == nil {
			t.Fatalf("RequestBlock was served by a scan connection (%v)", desc)
		}
		if c := hdrs.processed(); c != 0 {
			t.Fatalf("%d headers from unverified scan peers reached the header repository (%v)", c, desc)
		}
		if adds, scores := book.counts(); adds != 0 || scores != 0 {
			t.Fatalf("address book touched by unverified scan peers: %d Add, %d UpdateScore (%v)", adds, scores, desc)
		}
		for i, p := range peers {
			if c := p.Count("getdata"); c != 0 {
				t.Fatalf("scan peer %d received %d getdata (%v)", i, c, desc)
			}
			want := 0
			if stages[i] == 2 {
				want = 1
			}
			if c := p.Count("getheaders"); c > want {
				t.Fatalf("scan peer %d (stage %d) received %d getheaders (%v)", i, stages[i], c, desc)
			}
		}
		// one peer verifies: the scan connection must be dropped at once
		v := rapid.IntRange(0, nPeers-1).Draw(t, "verifier")
		p := peers[v]
		if !p.Closed() {
			if stages[v] < 1 {
				p.Send(p2p.Version(0))
			}
			if stages[v] < 2 {
				p.Send(p2p.Verack())
			}
			if p.WaitCommand("getheaders", 1, stageTimeout) {
				p.Send(p2p.Headers([]model.RawHeader{bsvHeader()}))
				if !p.WaitClosed(closeBound) {
					t.Fatalf("scan connection %d not dropped after verification (%v)", v, desc)
				}
				for _, cmd := range []string{"sendheaders", "getaddr", "addr", "getdata"} {
					if c := p.Count(cmd); c != 0 {
						t.Fatalf("scan connection %d sent %s after verification (%v)", v, cmd, desc)
					}
				}
				if c := p.Count("getheaders"); c != 1 {
					t.Fatalf("scan connection %d sent %d getheaders (%v)", v, c, desc)
				}
			} else if !p.Closed() {
				t.Fatalf("setup: scan peer %d: no verification request and not closed (%v)", v, desc)
			}
		}
		if c := hdrs.processed(); c != 0 {
			t.Fatalf("%d headers reached the header repository through scan connections (%v)", c, desc)
		}
		k.Op("peers=%d txm=%v %v verifier=%d", nPeers, withTxm, desc, v)
		k.NonTrivial = interesting
		k.Done()
	})
}

func kindsDesc(stage int, kinds []string) string {
	r := "S" + string(rune('0'+stage)) + ":"
	for _, kd := range kinds {
		r += kd + ","
	}
	return r
}

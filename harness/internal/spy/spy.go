// Package spy has recording implementations of the reader's callback interfaces.
package spy

import (
	"context"
	"errors"
	"fmt"
	"sync"

	"verifharness/internal/model"

	"github.com/tokenized/pkg/bitcoin"
	"github.com/tokenized/pkg/merkle_proof"
	"github.com/tokenized/pkg/wire"
)

var ErrInjected = errors.New("injected processor fault")

type Call struct {
	Kind   string // ProcessTx, ConfirmTx, ProcessCoinbaseTx, AppendBlockTxIDs, SaveTx, ...
	TxID   model.Hash
	Block  model.Hash
	Height int
	Proof  *merkle_proof.MerkleProof
	TxIDs  []model.Hash
}

func (c Call) String() string {
	switch c.Kind {
	case "AppendBlockTxIDs":
		return fmt.Sprintf("%s(%d txids)", c.Kind, len(c.TxIDs))
	}
	return fmt.Sprintf("%s(%s)", c.Kind, c.TxID.String()[:8])
}

// Log is one ordered call log shared by a processor, a saver and a block tx manager.
type Log struct {
	mu    sync.Mutex
	calls []Call

	// Relevant decides the answer of ProcessTx.
	Relevant func(txid model.Hash) bool
	// FailAt > 0 makes the n-th recorded call return ErrInjected.
	FailAt int

	blocks map[model.Hash][]model.Hash
}

func NewLog() *Log { return &Log{blocks: map[model.Hash][]model.Hash{}} }

func (l *Log) add(c Call) error {
	l.mu.Lock()
	defer l.mu.Unlock()
	l.calls = append(l.calls, c)
	if l.FailAt > 0 && len(l.calls) == l.FailAt {
		return ErrInjected
	}
	return nil
}

func (l *Log) Calls() []Call {
	l.mu.Lock()
	defer l.mu.Unlock()
	return append([]Call(nil), l.calls...)
}

func (l *Log) Count(kind string) int {
	n := 0
	for _, c := range l.Calls() {
		if c.Kind == kind {
			n++
		}
	}
	return n
}

func (l *Log) CountTx(kind string, txid model.Hash) int {
	n := 0
	for _, c := range l.Calls() {
		if c.Kind == kind && c.TxID == txid {
			n++
		}
	}
	return n
}

// ---- TxProcessor ----

type Processor struct{ L *Log }

func (p Processor) ProcessTx(ctx context.Context, tx *wire.MsgTx) (bool, error) {
	id := model.Hash(*tx.TxHash())
	if err := p.L.add(Call{Kind: "ProcessTx", TxID: id}); err != nil {
		return false, err
	}
	if p.L.Relevant != nil {
		return p.L.Relevant(id), nil
	}
	return false, nil
}

func (p Processor) CancelTx(ctx context.Context, txid bitcoin.Hash32) error {
	return p.L.add(Call{Kind: "CancelTx", TxID: model.Hash(txid)})
}

func (p Processor) AddTxConflict(ctx context.Context, txid, conflict bitcoin.Hash32) error {
	return p.L.add(Call{Kind: "AddTxConflict", TxID: model.Hash(txid)})
}

func (p Processor) ConfirmTx(ctx context.Context, txid bitcoin.Hash32, height int, proof *merkle_proof.MerkleProof) error {
	cp := proof.Copy()
	return p.L.add(Call{Kind: "ConfirmTx", TxID: model.Hash(txid), Height: height, Proof: &cp})
}

func (p Processor) UpdateTxChainDepth(ctx context.Context, txid bitcoin.Hash32, depth uint32) error {
	return p.L.add(Call{Kind: "UpdateTxChainDepth", TxID: model.Hash(txid)})
}

func (p Processor) ProcessCoinbaseTx(ctx context.Context, block bitcoin.Hash32, tx *wire.MsgTx) error {
	return p.L.add(Call{Kind: "ProcessCoinbaseTx", Block: model.Hash(block), TxID: model.Hash(*tx.TxHash())})
}

// ---- TxSaver ----

type Saver struct{ L *Log }

func (s Saver) SaveTx(ctx context.Context, tx *wire.MsgTx) error {
	return s.L.add(Call{Kind: "SaveTx", TxID: model.Hash(*tx.TxHash())})
}

// ---- BlockTxManager ----

type BlockTxs struct{ L *Log }

func (b BlockTxs) FetchBlockTxIDs(ctx context.Context, hash bitcoin.Hash32) ([]bitcoin.Hash32, bool, error) {
	b.L.mu.Lock()
	defer b.L.mu.Unlock()
	ids, ok := b.L.blocks[model.Hash(hash)]
	if !ok {
		return nil, false, nil
	}
	r := make([]bitcoin.Hash32, len(ids))
	for i, id := range ids {
		r[i] = bitcoin.Hash32(id)
	}
	return r, true, nil
}

func (b BlockTxs) AppendBlockTxIDs(ctx context.Context, hash bitcoin.Hash32, txids []bitcoin.Hash32) error {
	ids := make([]model.Hash, len(txids))
	for i, id := range txids {
		ids[i] = model.Hash(id)
	}
	if err := b.L.add(Call{Kind: "AppendBlockTxIDs", Block: model.Hash(hash), TxIDs: ids}); err != nil {
		return err
	}
	b.L.mu.Lock()
	b.L.blocks[model.Hash(hash)] = ids
	b.L.mu.Unlock()
	return nil
}

// MarkProcessed records a block as already processed (for synchronisation tests).
func (l *Log) MarkProcessed(hash model.Hash) {
	l.mu.Lock()
	l.blocks[hash] = []model.Hash{}
	l.mu.Unlock()
}

func (l *Log) Processed(hash model.Hash) bool {
	l.mu.Lock()
	defer l.mu.Unlock()
	_, ok := l.blocks[hash]
	return ok
}

// Package fix loads the repository's real mainnet header fixtures and builds repositories on them.
package fix

import (
	"encoding/json"
	"math/big"
	"os"
	"path/filepath"
	"sync"

	"verifharness/internal/memstore"
	"verifharness/internal/model"
	"verifharness/internal/vt"

	"github.com/tokenized/bitcoin_reader/headers"
	"github.com/tokenized/pkg/bitcoin"
	"github.com/tokenized/pkg/wire"
)

type Fixture struct {
	Name    string
	Height  int
	Work    *big.Int // chain work before the first header
	Headers []*wire.BlockHeader
}

var (
	once  sync.Once
	fixes []*Fixture
)

func repoRoot() string {
	if p := os.Getenv("VERIF_REPO"); p != "" {
		return p
	}
	return "/repo"
}

// Fixtures returns the 556000.. and 725000.. windows of real headers.
func Fixtures() []*Fixture {
	once.Do(func() {
		for _, f := range []struct {
			file   string
			height int
			work   string
		}{{"headers_556000.txt", 556000, "d167cf38dd7a9c078a40d5"}, {"headers_725000.txt", 725000, "134b2eb2b14bbedbad9a14b"}} {
			data, err := os.ReadFile(filepath.Join(repoRoot(), "headers", "test_fixtures", f.file))
			if err != nil {
				panic(err)
			}
			fx := &Fixture{Name: f.file, Height: f.height, Work: new(big.Int)}
			fx.Work.SetString(f.work, 16)
			if err := json.Unmarshal(data, &fx.Headers); err != nil {
				panic(err)
			}
			fixes = append(fixes, fx)
		}
	})
	return fixes
}

type Fataler interface{ Fatalf(string, ...any) }

// NewRepo returns a repository whose latest header is fixture header `start` followed by `warm`
// real headers added without difficulty checks; difficulty checks are enabled afterwards when
// enable is true.
func NewRepo(t Fataler, fx *Fixture, start, warm int, enable bool) *headers.Repository {
	ctx := vt.Ctx()
	repo := headers.NewRepository(headers.DefaultConfig(), memstore.New())
	repo.DisableDifficulty()
	work := new(big.Int).Set(fx.Work)
	for i := 0; i <= start; i++ {
		work.Add(work, model.BlockWork(fx.Headers[i].Bits))
	}
	if err := repo.MockLatest(ctx, fx.Headers[start], fx.Height+start, work); err != nil {
		t.Fatalf("MockLatest: %s", err)
	}
	for i := start + 1; i <= start+warm; i++ {
		if err := repo.ProcessHeader(ctx, fx.Headers[i]); err != nil {
			t.Fatalf("warm header %d: %s", i, err)
		}
	}
	if enable {
		repo.EnableDifficulty()
	}
	return repo
}

func ToWire(r *model.RawHeader) *wire.BlockHeader {
	return &wire.BlockHeader{Version: r.Version, PrevBlock: bitcoin.Hash32(r.Prev),
		MerkleRoot: bitcoin.Hash32(r.Merkle), Timestamp: r.Timestamp, Bits: r.Bits, Nonce: r.Nonce}
}

func FromWire(h *wire.BlockHeader) model.RawHeader {
	return model.RawHeader{Version: h.Version, Prev: model.Hash(h.PrevBlock), Merkle: model.Hash(h.MerkleRoot),
		Timestamp: h.Timestamp, Bits: h.Bits, Nonce: h.Nonce}
}

// BCHSplitHeader is the first BCH-only header (height 556767), fields from the repository's tests.
func BCHSplitHeader(prev bitcoin.Hash32) *wire.BlockHeader {
	mr, _ := bitcoin.NewHash32FromStr("1cf31105bd6b1b4dba9ae55290ec06fff15b4567ec62a6e3863409bb3efd1944")
	return &wire.BlockHeader{Version: 0x20000000, PrevBlock: prev, MerkleRoot: *mr, Timestamp: 1542304936,
		Bits: 402792411, Nonce: 3911120513}
}

const (
	BSVSplitHash = "000000000000000001d956714215d96ffc00e0afda4cd0a96c96f8d802b1662b"
	BCHSplitHash = "0000000000000000004626ff6e3b936941d341c5932ece4357eeccac44e6d56c"
	BTCSplitHash = "00000000000000000019f112ec0a9982926f1258cdcc558dd7c3b7e5dc7fa148"
	SplitBefore  = "00000000000000000102d94fde9bd0807a2cc7582fe85dd6349b73ce4e8d9322"
)

// Package model is the reference model used as oracle: a block tree with cumulative work, an
// independent implementation of the compact-bits decoder, block work, the Nov-2017 144-block
// difficulty adjustment and merkle trees. It shares no code with the repository under test.
package model

import (
	"crypto/sha256"
	"encoding/binary"
	"fmt"
	"math/big"
	"sort"
)

type Hash [32]byte

func (h Hash) String() string {
	// display order (reversed), like block explorers
	var r [32]byte
	for i := range h {
		r[i] = h[31-i]
	}
	return fmt.Sprintf("%x", r[:])
}

// RawHeader is the 80 byte block header.
type RawHeader struct {
	Version   int32
	Prev      Hash
	Merkle    Hash
	Timestamp uint32
	Bits      uint32
	Nonce     uint32
}

func (h RawHeader) Bytes() []byte {
	b := make([]byte, 80)
	binary.LittleEndian.PutUint32(b[0:], uint32(h.Version))
	copy(b[4:], h.Prev[:])
	copy(b[36:], h.Merkle[:])
	binary.LittleEndian.PutUint32(b[68:], h.Timestamp)
	binary.LittleEndian.PutUint32(b[72:], h.Bits)
	binary.LittleEndian.PutUint32(b[76:], h.Nonce)
	return b
}

func DoubleSHA(b []byte) Hash {
	a := sha256.Sum256(b)
	return sha256.Sum256(a[:])
}

func (h RawHeader) Hash() Hash { return DoubleSHA(h.Bytes()) }

// HashValue interprets a hash as the little endian 256 bit number used for proof of work.
func HashValue(h Hash) *big.Int {
	var r [32]byte
	for i := range h {
		r[i] = h[31-i]
	}
	return new(big.Int).SetBytes(r[:])
}

var (
	two256   = new(big.Int).Lsh(big.NewInt(1), 256)
	PowLimit = new(big.Int).Sub(new(big.Int).Lsh(big.NewInt(1), 224), big.NewInt(1)) // 0x00000000ffff...ff
)

// CompactDecode is consensus arith_uint256::SetCompact: returns |target|, negative and overflow.
func CompactDecode(bits uint32) (target *big.Int, negative, overflow bool) {
	size := int(bits >> 24)
	word := bits & 0x007fffff
	target = new(big.Int)
	if size <= 3 {
		word >>= uint(8 * (3 - size))
		target.SetUint64(uint64(word))
	} else {
		target.SetUint64(uint64(word))
		target.Lsh(target, uint(8*(size-3)))
	}
	negative = word != 0 && (bits&0x00800000) != 0
	overflow = word != 0 && (size > 34 || (word > 0xff && size > 33) || (word > 0xffff && size > 32))
	return
}

// CompactPermissive is the most permissive reading of a bits field: the full 24 bit mantissa
// (sign bit taken as magnitude) times 256^(exponent-3), unbounded.
func CompactPermissive(bits uint32) *big.Int {
	size := int(bits >> 24)
	word := new(big.Int).SetUint64(uint64(bits & 0x00ffffff))
	if size <= 3 {
		return word.Rsh(word, uint(8*(3-size)))
	}
	return word.Lsh(word, uint(8*(size-3)))
}

// CompactEncode is consensus arith_uint256::GetCompact (positive numbers).
func CompactEncode(target *big.Int) uint32 {
	size := (target.BitLen() + 7) / 8
	var compact uint64
	if size <= 3 {
		compact = target.Uint64() << uint(8*(3-size))
	} else {
		compact = new(big.Int).Rsh(target, uint(8*(size-3))).Uint64()
	}
	if compact&0x00800000 != 0 {
		compact >>= 8
		size++
	}
	return uint32(compact) | uint32(size)<<24
}

// BlockWork is consensus GetBlockProof: 2^256 / (target+1); zero for invalid encodings.
func BlockWork(bits uint32) *big.Int {
	target, neg, over := CompactDecode(bits)
	if neg || over || target.Sign() == 0 {
		return new(big.Int)
	}
	d := new(big.Int).Add(target, big.NewInt(1))
	return new(big.Int).Div(two256, d)
}

// ---------------------------------------------------------------------------------------------
// Block tree

type Node struct {
	Label    string
	Hash     Hash
	Raw      RawHeader
	Parent   *Node
	Height   int
	Work     *big.Int // cumulative
	Children []*Node
	Seq      int   // creation order
	Far      *Node // ancestor at the largest multiple of 64 below this height (skip pointer)
}

type Tree struct {
	Genesis *Node
	ByHash  map[Hash]*Node
	seq     int
}

func NewTree(genesis RawHeader) *Tree {
	g := &Node{Label: "g", Hash: genesis.Hash(), Raw: genesis, Height: 0, Work: BlockWork(genesis.Bits)}
	return &Tree{Genesis: g, ByHash: map[Hash]*Node{g.Hash: g}}
}

// AddChild creates (or returns) the node for raw under its parent. The parent must exist.
func (t *Tree) AddChild(raw RawHeader) *Node {
	h := raw.Hash()
	if n, ok := t.ByHash[h]; ok {
		return n
	}
	p := t.ByHash[raw.Prev]
	if p == nil {
		return nil
	}
	t.seq++
	n := &Node{Label: fmt.Sprintf("n%d", t.seq), Hash: h, Raw: raw, Parent: p, Height: p.Height + 1,
		Work: new(big.Int).Add(p.Work, BlockWork(raw.Bits)), Seq: t.seq}
	if p.Height%64 == 0 {
		n.Far = p
	} else {
		n.Far = p.Far
	}
	p.Children = append(p.Children, n)
	t.ByHash[h] = n
	return n
}

// up returns the ancestor of n at height h (h <= n.Height) using the skip pointers.
func up(n *Node, h int) *Node {
	for n.Height > h {
		if n.Far != nil && n.Far.Height >= h {
			n = n.Far
		} else {
			n = n.Parent
		}
	}
	return n
}

func IsAncestorOrEqual(a, b *Node) bool {
	if b == nil || a == nil || b.Height < a.Height {
		return false
	}
	return up(b, a.Height) == a
}

func LCA(a, b *Node) *Node {
	if a.Height > b.Height {
		a = up(a, b.Height)
	} else {
		b = up(b, a.Height)
	}
	for a != b {
		if a.Far != nil && b.Far != nil && a.Far != b.Far {
			a, b = a.Far, b.Far
		} else {
			a, b = a.Parent, b.Parent
		}
	}
	return a
}

// Chain returns the nodes from genesis to tip (index = height).
func Chain(tip *Node) []*Node {
	r := make([]*Node, tip.Height+1)
	for n := tip; n != nil; n = n.Parent {
		r[n.Height] = n
	}
	return r
}

func AncestorAt(n *Node, height int) *Node {
	if height < 0 || height > n.Height {
		return nil
	}
	return up(n, height)
}

// Set is a set of nodes (an instance's accepted or held headers).
type Set map[*Node]bool

// BestTips returns the accepted nodes of maximal cumulative work that are not at or below an
// invalid mark, and that work.
func BestTips(acc Set, invalid map[Hash]bool) ([]*Node, *big.Int) {
	var best []*Node
	var bw *big.Int
	// memoised walk towards the root: linear in the number of nodes for any number of marks
	under := map[*Node]bool{}
	isUnder := func(n *Node) bool {
		if len(invalid) == 0 {
			return false
		}
		var path []*Node
		res := false
		for x := n; x != nil; x = x.Parent {
			if v, ok := under[x]; ok {
				res = v
				break
			}
			path = append(path, x)
			if invalid[x.Hash] {
				res = true
				break
			}
		}
		if res {
			// the path ends at a marked node or just below a node known to be under a mark:
			// every node on it descends from that node
			for i := len(path) - 1; i >= 0; i-- {
				under[path[i]] = true
			}
			return true
		}
		for _, x := range path {
			under[x] = false
		}
		return false
	}
	for n := range acc {
		if isUnder(n) {
			continue
		}
		if bw == nil || n.Work.Cmp(bw) > 0 {
			bw, best = n.Work, []*Node{n}
		} else if n.Work.Cmp(bw) == 0 {
			best = append(best, n)
		}
	}
	sort.Slice(best, func(i, j int) bool { return best[i].Seq < best[j].Seq })
	return best, bw
}

func UnderInvalid(n *Node, invalid map[Hash]bool) bool {
	if len(invalid) == 0 {
		return false
	}
	for ; n != nil; n = n.Parent {
		if invalid[n.Hash] {
			return true
		}
	}
	return false
}

func (s Set) Sorted() []*Node {
	r := make([]*Node, 0, len(s))
	for n := range s {
		r = append(r, n)
	}
	sort.Slice(r, func(i, j int) bool { return r[i].Seq < r[j].Seq })
	return r
}

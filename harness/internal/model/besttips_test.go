package model

import (
	"testing"

	"pgregory.net/rapid"
)

// BestTips' memoised ancestor walk must agree with the plain UnderInvalid walk.
func TestBestTipsAgreesWithUnderInvalid(t *testing.T) {
	rapid.Check(t, func(t *rapid.T) {
		tr := NewTree(RawHeader{Version: 1, Bits: 0x1d00ffff})
		nodes := []*Node{tr.Genesis}
		n := rapid.IntRange(1, 60).Draw(t, "n")
		for i := 0; i < n; i++ {
			p := nodes[rapid.IntRange(0, len(nodes)-1).Draw(t, "parent")]
			raw := RawHeader{Version: 1, Prev: p.Hash, Bits: rapid.SampledFrom([]uint32{0x1d00ffff, 0x1c00ffff}).Draw(t, "bits"), Nonce: uint32(i)}
			nodes = append(nodes, tr.AddChild(raw))
		}
		acc := Set{}
		for _, x := range nodes {
			if rapid.IntRange(0, 9).Draw(t, "acc") > 0 {
				acc[x] = true
			}
		}
		invalid := map[Hash]bool{}
		for i := rapid.IntRange(0, 4).Draw(t, "marks"); i > 0; i-- {
			invalid[nodes[rapid.IntRange(0, len(nodes)-1).Draw(t, "mark")].Hash] = true
		}
		got, gw := BestTips(acc, invalid)
		var want []*Node
		for x := range acc {
			if UnderInvalid(x, invalid) {
				continue
			}
			if len(want) == 0 || x.Work.Cmp(want[0].Work) > 0 {
				want = []*Node{x}
			} else if x.Work.Cmp(want[0].Work) == 0 {
				want = append(want, x)
			}
		}
		if len(got) != len(want) {
			t.Fatalf("BestTips returned %d tips, plain walk %d", len(got), len(want))
		}
		if len(want) > 0 && gw.Cmp(want[0].Work) != 0 {
			t.Fatalf("work differs")
		}
		ws := Set{}
		for _, x := range want {
			ws[x] = true
		}
		for _, x := range got {
			if !ws[x] {
				t.Fatalf("tip %s not in the plain result", x.Label)
			}
		}
	})
}

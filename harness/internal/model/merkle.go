package model

// Independent merkle tree reference (Bitcoin rule: the last node of an odd level is paired with
// itself) and the proof format used by tokenized/pkg merkle_proof: Path holds the sibling at
// every level where a real sibling exists, DuplicatedIndexes holds the 1-based levels at which
// the node is paired with itself.

func pairHash(l, r Hash) Hash {
	var b [64]byte
	copy(b[:32], l[:])
	copy(b[32:], r[:])
	return DoubleSHA(b[:])
}

// MerkleRoot computes the root over txids (len >= 1).
func MerkleRoot(txids []Hash) Hash {
	level := append([]Hash(nil), txids...)
	for len(level) > 1 {
		var next []Hash
		for i := 0; i < len(level); i += 2 {
			if i+1 < len(level) {
				next = append(next, pairHash(level[i], level[i+1]))
			} else {
				next = append(next, pairHash(level[i], level[i]))
			}
		}
		level = next
	}
	return level[0]
}

// MerklePath returns the proof elements for position i.
func MerklePath(txids []Hash, i int) (path []Hash, dupLevels []int) {
	level := append([]Hash(nil), txids...)
	idx := i
	depth := 1
	for len(level) > 1 {
		sib := idx ^ 1
		if sib < len(level) {
			path = append(path, level[sib])
		} else {
			dupLevels = append(dupLevels, depth)
		}
		var next []Hash
		for j := 0; j < len(level); j += 2 {
			if j+1 < len(level) {
				next = append(next, pairHash(level[j], level[j+1]))
			} else {
				next = append(next, pairHash(level[j], level[j]))
			}
		}
		level = next
		idx /= 2
		depth++
	}
	return
}

// RootFromPath recomputes the root a (possibly altered) proof commits to. ok=false when the proof
// is malformed in a way the format forbids (a right-hand node paired with an identical hash).
func RootFromPath(txid Hash, index int, path []Hash, dupLevels []int) (root Hash, ok bool) {
	h := txid
	level := 1
	for {
		left := index%2 == 0
		var other Hash
		if len(dupLevels) > 0 && dupLevels[0] == level {
			other = h
			dupLevels = dupLevels[1:]
		} else {
			if len(path) == 0 {
				break
			}
			other = path[0]
			path = path[1:]
		}
		if !left && other == h {
			return Hash{}, false
		}
		if left {
			h = pairHash(h, other)
		} else {
			h = pairHash(other, h)
		}
		index /= 2
		level++
	}
	return h, true
}

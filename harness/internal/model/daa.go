package model

import "math/big"

// Line-by-line port of the network's Nov-2017 difficulty adjustment (Bitcoin ABC / Bitcoin SV
// pow.cpp: GetNextCashWorkRequired, GetSuitableBlock, ComputeTarget). Shares no code with the
// repository under test.

type PowBlock struct {
	Height    int
	Time      uint32
	Bits      uint32
	ChainWork *big.Int // cumulative, including this block
}

// suitable is GetSuitableBlock: median-of-three by time of (h-2, h-1, h) using the network's
// three compare-and-swap steps (strict >), which is NOT the same as a stable sort on ties.
func suitable(at func(int) *PowBlock, h int) *PowBlock {
	b := [3]*PowBlock{at(h - 2), at(h - 1), at(h)}
	if b[0].Time > b[2].Time {
		b[0], b[2] = b[2], b[0]
	}
	if b[0].Time > b[1].Time {
		b[0], b[1] = b[1], b[0]
	}
	if b[1].Time > b[2].Time {
		b[1], b[2] = b[2], b[1]
	}
	return b[1]
}

// NextBitsDAA returns the compact bits required for the block after prevHeight. at(h) must return
// the block at height h on the branch of the new block for prevHeight-146 <= h <= prevHeight.
func NextBitsDAA(at func(int) *PowBlock, prevHeight int) uint32 {
	last := suitable(at, prevHeight)
	first := suitable(at, prevHeight-144)
	work := new(big.Int).Sub(last.ChainWork, first.ChainWork)
	work.Mul(work, big.NewInt(600))
	span := int64(last.Time) - int64(first.Time) // signed
	if span > 288*600 {
		span = 288 * 600
	} else if span < 72*600 {
		span = 72 * 600
	}
	work.Div(work, big.NewInt(span))
	if work.Sign() == 0 {
		return CompactEncode(PowLimit)
	}
	// (2^256 - W) / W
	target := new(big.Int).Sub(two256, work)
	target.Div(target, work)
	if target.Cmp(PowLimit) > 0 {
		target.Set(PowLimit)
	}
	return CompactEncode(target)
}

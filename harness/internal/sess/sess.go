// Package sess runs a real BitcoinNode over loopback TCP against a scripted peer (shared by the
// block and transaction legs; harness/netp keeps its own copy with more stages).
package sess

import (
	"context"
	"fmt"
	"os"
	"sync"
	"time"

	"verifharness/internal/memstore"
	"verifharness/internal/model"
	"verifharness/internal/p2p"
	"verifharness/internal/vt"

	bitcoin_reader "github.com/tokenized/bitcoin_reader"
	"github.com/tokenized/bitcoin_reader/headers"
	"github.com/tokenized/config"
	"github.com/tokenized/pkg/bitcoin"
	"github.com/tokenized/pkg/wire"
)

type Failer interface {
	Fatalf(string, ...any)
}

// SpyHeaders wraps the real header repository and records the calls a peer can cause.
type SpyHeaders struct {
	*headers.Repository
	mu       sync.Mutex
	process  int
	verify   int
	locators int
}

func (s *SpyHeaders) ProcessHeader(ctx context.Context, h *wire.BlockHeader) error {
	s.mu.Lock()
	s.process++
	s.mu.Unlock()
	return s.Repository.ProcessHeader(ctx, h)
}

func (s *SpyHeaders) VerifyHeader(ctx context.Context, h *wire.BlockHeader) error {
	s.mu.Lock()
	s.verify++
	s.mu.Unlock()
	return s.Repository.VerifyHeader(ctx, h)
}

func (s *SpyHeaders) Processed() int {
	s.mu.Lock()
	defer s.mu.Unlock()
	return s.process
}

// SpyPeers wraps the real address book.
type SpyPeers struct {
	*bitcoin_reader.StoragePeerRepository
	mu      sync.Mutex
	adds    []string
	scores  []string
	updates int
}

func (s *SpyPeers) Add(ctx context.Context, a string) (bool, error) {
	s.mu.Lock()
	s.adds = append(s.adds, a)
	s.mu.Unlock()
	return s.StoragePeerRepository.Add(ctx, a)
}

func (s *SpyPeers) UpdateScore(ctx context.Context, a string, d int32) bool {
	s.mu.Lock()
	s.scores = append(s.scores, fmt.Sprintf("%s%+d", a, d))
	s.mu.Unlock()
	return s.StoragePeerRepository.UpdateScore(ctx, a, d)
}

func (s *SpyPeers) UpdateTime(ctx context.Context, a string) bool {
	s.mu.Lock()
	s.updates++
	s.mu.Unlock()
	return s.StoragePeerRepository.UpdateTime(ctx, a)
}

func (s *SpyPeers) Counts() (adds, scores int) {
	s.mu.Lock()
	defer s.mu.Unlock()
	return len(s.adds), len(s.scores)
}

type Opts struct {
	// Fragment: the scripted peer writes everything in pieces of these sizes (see p2p.Peer.Fragment)
	Fragment   []int
	VerifyOnly bool
	TxManager  *bitcoin_reader.TxManager
	Headers    *SpyHeaders // shared between sessions when set
	Peers      *SpyPeers
}

type Session struct {
	Peer      *p2p.Peer
	Node      *bitcoin_reader.BitcoinNode
	Headers   *SpyHeaders
	Peers     *SpyPeers
	interrupt chan interface{}
	done      chan error
	stopped   bool
}

func NewHeaders() *SpyHeaders {
	repo := headers.NewRepository(headers.DefaultConfig(), memstore.New())
	repo.DisableDifficulty()
	repo.InitializeWithGenesis()
	return &SpyHeaders{Repository: repo}
}

func NewPeers() *SpyPeers {
	return &SpyPeers{StoragePeerRepository: bitcoin_reader.NewPeerRepository(memstore.New(), "")}
}

func NodeConfig() *bitcoin_reader.Config {
	cfg := bitcoin_reader.DefaultConfig()
	cfg.Timeout = config.NewDuration(time.Hour)
	cfg.Network = bitcoin.MainNet
	return cfg
}

// Start listens, starts a real BitcoinNode.Run towards the listener and accepts its connection.
func Start(t Failer, o Opts) *Session {
	peer, err := p2p.Listen()
	if err != nil {
		t.Fatalf("listen: %s", err)
	}
	peer.Fragment = o.Fragment
	s := &Session{Peer: peer, Headers: o.Headers, Peers: o.Peers, interrupt: make(chan interface{}), done: make(chan error, 1)}
	if s.Headers == nil {
		s.Headers = NewHeaders()
	}
	if s.Peers == nil {
		s.Peers = NewPeers()
	}
	s.Node = bitcoin_reader.NewBitcoinNode(peer.Addr(), "/verif:1/", NodeConfig(), s.Headers, s.Peers)
	if o.VerifyOnly {
		s.Node.SetVerifyOnly()
	}
	if o.TxManager != nil {
		s.Node.SetTxManager(o.TxManager)
	}
	go func() { s.done <- s.Node.Run(vt.Ctx(), s.interrupt) }()
	if err := peer.Accept(10 * time.Second); err != nil {
		t.Fatalf("%s: node did not connect: %s", p2p.SetupFailure, err)
	}
	return s
}

const StageTimeout = 10 * time.Second

// Handshake performs version/verack from the peer side and waits for the node's verification
// request (stage S2: handshake complete, verification pending).
func (s *Session) Handshake(t Failer) {
	if !s.Peer.WaitCommand("version", 1, StageTimeout) {
		t.Fatalf("setup: node did not send version")
	}
	s.Peer.Send(p2p.Version(0), p2p.Verack())
	if !s.Peer.WaitCommand("getheaders", 1, StageTimeout) {
		t.Fatalf("setup: node did not send the verification getheaders (received %v)", Cmds(s.Peer.Received()))
	}
}

// Verify answers the verification request with the BSV split header (stage S3 for a full node).
func (s *Session) Verify(t Failer) {
	s.Peer.Send(p2p.Headers([]model.RawHeader{BSVHeader()}))
	deadline := time.Now().Add(StageTimeout)
	for !s.Node.Verified() {
		if time.Now().After(deadline) {
			t.Fatalf("setup: node did not verify the BSV split header")
		}
		time.Sleep(time.Millisecond)
	}
}

// Ready brings a full node to stage S3 and waits for the messages it sends on acceptance.
func (s *Session) Ready(t Failer) {
	s.Handshake(t)
	s.Verify(t)
	if !s.Peer.WaitCommand("addr", 1, StageTimeout) {
		t.Fatalf("setup: node did not finish its acceptance messages (received %v)", Cmds(s.Peer.Received()))
	}
}

func BSVHeader() model.RawHeader {
	h := headers.MainNetRequiredHeader
	return model.RawHeader{Version: h.Version, Prev: model.Hash(h.PrevBlock), Merkle: model.Hash(h.MerkleRoot),
		Timestamp: h.Timestamp, Bits: h.Bits, Nonce: h.Nonce}
}

func Cmds(fs []p2p.Frame) []string {
	r := make([]string, len(fs))
	for i, f := range fs {
		r[i] = f.Command
	}
	return r
}

// Finish closes the peer side, interrupts the node and reports whether Run returned in time.
func (s *Session) Finish(bound time.Duration) bool {
	if s.stopped {
		return true
	}
	s.stopped = true
	t0 := time.Now()
	s.Peer.Close()
	close(s.interrupt)
	select {
	case <-s.done:
		if d := time.Since(t0); d > 50*time.Millisecond && os.Getenv("VERIF_TIMING") != "" {
			fmt.Printf("SLOWFINISH %v\n", d)
		}
		return true
	case <-time.After(bound):
		return false
	}
}

// RunReturned waits for Run to return without interrupting it (after the peer closed).
func (s *Session) RunReturned(bound time.Duration) bool {
	select {
	case err := <-s.done:
		s.done <- err
		return true
	case <-time.After(bound):
		return false
	}
}

// Package memstore is an in-memory storage.Storage that copies bytes on write and read, journals
// every Write/Remove, and supports snapshots, crash-image replay and fault injection.
package memstore

import (
	"context"
	"errors"
	"sort"
	"strings"
	"sync"

	"github.com/tokenized/pkg/storage"
)

type Op struct {
	Seq    int
	Remove bool
	Key    string
	Data   []byte
	Scope  string
}

type Store struct {
	mu      sync.Mutex
	data    map[string][]byte
	journal []Op
	scope   string
	seq     int
	reads   int

	// FailWriteAt > 0 makes the n-th Write/Remove from now fail with ErrInjected.
	FailWriteAt int
	writesSeen  int
}

var ErrInjected = errors.New("injected storage fault")

func New() *Store { return &Store{data: map[string][]byte{}} }

func cp(b []byte) []byte {
	r := make([]byte, len(b))
	copy(r, b)
	return r
}

func (s *Store) SetScope(scope string) {
	s.mu.Lock()
	s.scope = scope
	s.mu.Unlock()
}

func (s *Store) Reads() int {
	s.mu.Lock()
	defer s.mu.Unlock()
	return s.reads
}

// JournalLen returns the number of journaled operations so far.
func (s *Store) JournalLen() int {
	s.mu.Lock()
	defer s.mu.Unlock()
	return len(s.journal)
}

// JournalSince returns a copy of the journal entries from index i on.
func (s *Store) JournalSince(i int) []Op {
	s.mu.Lock()
	defer s.mu.Unlock()
	r := make([]Op, len(s.journal)-i)
	copy(r, s.journal[i:])
	return r
}

func (s *Store) Snapshot() map[string][]byte {
	s.mu.Lock()
	defer s.mu.Unlock()
	r := make(map[string][]byte, len(s.data))
	for k, v := range s.data {
		r[k] = v // values are never mutated in place (copied on write), safe to share
	}
	return r
}

// FromSnapshot builds a fresh store from a snapshot with ops applied on top.
func FromSnapshot(snap map[string][]byte, ops []Op) *Store {
	s := New()
	for k, v := range snap {
		s.data[k] = v
	}
	for _, op := range ops {
		if op.Remove {
			delete(s.data, op.Key)
		} else {
			s.data[op.Key] = op.Data
		}
	}
	return s
}

func (s *Store) Restore(snap map[string][]byte) {
	s.mu.Lock()
	defer s.mu.Unlock()
	s.data = make(map[string][]byte, len(snap))
	for k, v := range snap {
		s.data[k] = v
	}
}

// Image returns a canonical rendering of the stored bytes for equality comparison.
func Image(snap map[string][]byte) string {
	keys := make([]string, 0, len(snap))
	for k := range snap {
		keys = append(keys, k)
	}
	sort.Strings(keys)
	var sb strings.Builder
	for _, k := range keys {
		sb.WriteString(k)
		sb.WriteByte(0)
		sb.Write(snap[k])
		sb.WriteByte(1)
	}
	return sb.String()
}

func (s *Store) Keys() []string {
	s.mu.Lock()
	defer s.mu.Unlock()
	keys := make([]string, 0, len(s.data))
	for k := range s.data {
		keys = append(keys, k)
	}
	sort.Strings(keys)
	return keys
}

func (s *Store) fault() bool {
	if s.FailWriteAt > 0 {
		s.writesSeen++
		if s.writesSeen == s.FailWriteAt {
			return true
		}
	}
	return false
}

func (s *Store) Write(ctx context.Context, key string, body []byte, o *storage.Options) error {
	s.mu.Lock()
	defer s.mu.Unlock()
	if s.fault() {
		return ErrInjected
	}
	b := cp(body)
	s.data[key] = b
	s.seq++
	s.journal = append(s.journal, Op{Seq: s.seq, Key: key, Data: b, Scope: s.scope})
	return nil
}

func (s *Store) Read(ctx context.Context, key string) ([]byte, error) {
	s.mu.Lock()
	defer s.mu.Unlock()
	s.reads++
	v, ok := s.data[key]
	if !ok {
		return nil, storage.ErrNotFound
	}
	return cp(v), nil
}

func (s *Store) Remove(ctx context.Context, key string) error {
	s.mu.Lock()
	defer s.mu.Unlock()
	if s.fault() {
		return ErrInjected
	}
	if _, ok := s.data[key]; !ok {
		return storage.ErrNotFound
	}
	delete(s.data, key)
	s.seq++
	s.journal = append(s.journal, Op{Seq: s.seq, Remove: true, Key: key, Scope: s.scope})
	return nil
}

func (s *Store) Search(ctx context.Context, q map[string]string) ([][]byte, error) {
	s.mu.Lock()
	defer s.mu.Unlock()
	var r [][]byte
	for _, k := range s.sortedKeysLocked() {
		if strings.HasPrefix(k, q["path"]) {
			r = append(r, cp(s.data[k]))
		}
	}
	return r, nil
}

func (s *Store) sortedKeysLocked() []string {
	keys := make([]string, 0, len(s.data))
	for k := range s.data {
		keys = append(keys, k)
	}
	sort.Strings(keys)
	return keys
}

func (s *Store) Clear(ctx context.Context, q map[string]string) error {
	s.mu.Lock()
	defer s.mu.Unlock()
	for _, k := range s.sortedKeysLocked() {
		if strings.HasPrefix(k, q["path"]) {
			delete(s.data, k)
			s.seq++
			s.journal = append(s.journal, Op{Seq: s.seq, Remove: true, Key: k, Scope: s.scope})
		}
	}
	return nil
}

func (s *Store) List(ctx context.Context, path string) ([]string, error) {
	s.mu.Lock()
	defer s.mu.Unlock()
	var r []string
	for _, k := range s.sortedKeysLocked() {
		if strings.HasPrefix(k, path) {
			r = append(r, k)
		}
	}
	return r, nil
}

func (s *Store) Copy(ctx context.Context, from, to string) error {
	s.mu.Lock()
	defer s.mu.Unlock()
	v, ok := s.data[from]
	if !ok {
		return storage.ErrNotFound
	}
	s.data[to] = v
	s.seq++
	s.journal = append(s.journal, Op{Seq: s.seq, Key: to, Data: v, Scope: s.scope})
	return nil
}

var _ storage.Storage = (*Store)(nil)

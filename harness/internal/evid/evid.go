// Package evid collects per-case statistics of the generated checks and writes one JSON summary
// per (property, leg, process); the driver merges the summaries into /verif/evidence/<id>.json.
package evid

import (
	"crypto/sha256"
	"encoding/hex"
	"encoding/json"
	"fmt"
	"os"
	"path/filepath"
	"sort"
	"strings"
	"sync"
)

const maxSamples = 6
const maxSigs = 200000

type Collector struct {
	ID, Leg string
	Rule    string

	mu          sync.Mutex
	evaluations int
	nontrivial  int
	sigs        map[string]struct{}
	classes     map[string]int
	samples     []interface{}
	extra       map[string]int
	known       map[string]string
}

var (
	regMu sync.Mutex
	reg   = map[string]*Collector{}
)

// For returns the collector of a property leg (created on first use).
func For(id, leg, rule string) *Collector {
	regMu.Lock()
	defer regMu.Unlock()
	key := id + "/" + leg
	c, ok := reg[key]
	if !ok {
		c = &Collector{ID: id, Leg: leg, Rule: rule, sigs: map[string]struct{}{},
			classes: map[string]int{}, extra: map[string]int{}, known: map[string]string{}}
		reg[key] = c
	}
	return c
}

// Case is one generated case. Fill it while the case runs and call Done (usually deferred).
type Case struct {
	c          *Collector
	ops        []string
	classes    map[string]struct{}
	NonTrivial bool
	done       bool
}

func (c *Collector) NewCase() *Case {
	return &Case{c: c, classes: map[string]struct{}{}}
}

// Op appends one abstract operation to the case's signature/sample.
func (k *Case) Op(format string, args ...interface{}) {
	if len(k.ops) < 400 {
		k.ops = append(k.ops, fmt.Sprintf(format, args...))
	}
}

func (k *Case) Class(name string) { k.classes[name] = struct{}{} }

func (k *Case) HasClass(name string) bool { _, ok := k.classes[name]; return ok }

func (k *Case) Ops() []string { return k.ops }

// Done records the case. Only completed (non-failing) cases should be recorded.
func (k *Case) Done() {
	if k.done {
		return
	}
	k.done = true
	c := k.c
	sum := sha256.Sum256([]byte(strings.Join(k.ops, "\n")))
	sig := hex.EncodeToString(sum[:8])
	c.mu.Lock()
	defer c.mu.Unlock()
	c.evaluations++
	for cl := range k.classes {
		c.classes[cl]++
	}
	if k.NonTrivial {
		c.nontrivial++
		if _, seen := c.sigs[sig]; !seen && len(c.sigs) < maxSigs {
			c.sigs[sig] = struct{}{}
			if len(c.samples) < maxSamples {
				cls := make([]string, 0, len(k.classes))
				for cl := range k.classes {
					cls = append(cls, cl)
				}
				sort.Strings(cls)
				c.samples = append(c.samples, map[string]interface{}{"ops": k.ops, "classes": cls})
			}
		}
	}
}

// Count adds to a free-form counter (e.g. excluded_known, inconclusive, loads).
func (c *Collector) Count(name string, n int) {
	c.mu.Lock()
	c.extra[name] += n
	c.mu.Unlock()
}

// Known records that a listed known finding was re-executed and still fails.
func (c *Collector) Known(key, what string) {
	c.mu.Lock()
	c.known[key] = what
	c.mu.Unlock()
	fmt.Printf("KNOWN-FINDING: property=%s %s\n", c.ID, what)
}

type summary struct {
	ID          string            `json:"property_id"`
	Leg         string            `json:"leg"`
	Rule        string            `json:"rule"`
	Evaluations int               `json:"evaluations"`
	NonTrivial  int               `json:"nontrivial"`
	Sigs        []string          `json:"sigs"`
	Classes     map[string]int    `json:"classes"`
	Samples     []interface{}     `json:"samples"`
	Extra       map[string]int    `json:"extra"`
	Known       map[string]string `json:"known"`
}

// Flush writes all collectors to $VERIF_EVID_DIR (no-op when unset). Call from TestMain.
func Flush() {
	dir := os.Getenv("VERIF_EVID_DIR")
	if dir == "" {
		return
	}
	regMu.Lock()
	defer regMu.Unlock()
	for _, c := range reg {
		c.mu.Lock()
		s := summary{ID: c.ID, Leg: c.Leg, Rule: c.Rule, Evaluations: c.evaluations,
			NonTrivial: c.nontrivial, Classes: c.classes, Samples: c.samples, Extra: c.extra,
			Known: c.known}
		for sig := range c.sigs {
			s.Sigs = append(s.Sigs, sig)
		}
		sort.Strings(s.Sigs)
		c.mu.Unlock()
		if s.Evaluations == 0 && len(s.Known) == 0 {
			continue
		}
		data, _ := json.Marshal(s)
		name := fmt.Sprintf("%s.%s.%d.json", c.ID, c.Leg, os.Getpid())
		_ = os.WriteFile(filepath.Join(dir, name), data, 0o644)
	}
}

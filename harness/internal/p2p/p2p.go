// Package p2p is the harness' own Bitcoin P2P framing (classic and extended) and a scripted peer
// that a real BitcoinNode connects to over loopback TCP. It does not use the repository's or the
// wire package's message reader (which cannot parse protoconf/extmsg frames).
package p2p

import (
	"bytes"
	"context"
	"crypto/sha256"
	"encoding/binary"
	"fmt"
	"io"
	"net"
	"os"
	"sync"
	"sync/atomic"
	"syscall"
	"time"

	"verifharness/internal/model"

	"github.com/tokenized/pkg/bitcoin"
	"github.com/tokenized/pkg/wire"
)

var Magic = uint32(bitcoin.MainNet)

type Frame struct {
	Command  string
	Payload  []byte
	Extended bool // extmsg framing; Command is then the extended command
}

func cmdBytes(c string) []byte {
	b := make([]byte, 12)
	copy(b, c)
	return b
}

func checksum(p []byte) []byte {
	a := sha256.Sum256(p)
	b := sha256.Sum256(a[:])
	return b[:4]
}

// Encode renders a well-formed frame.
func Encode(f Frame) []byte {
	var buf bytes.Buffer
	binary.Write(&buf, binary.LittleEndian, Magic)
	if !f.Extended {
		buf.Write(cmdBytes(f.Command))
		binary.Write(&buf, binary.LittleEndian, uint32(len(f.Payload)))
		buf.Write(checksum(f.Payload))
		buf.Write(f.Payload)
		return buf.Bytes()
	}
	buf.Write(cmdBytes("extmsg"))
	binary.Write(&buf, binary.LittleEndian, uint32(0xffffffff))
	buf.Write([]byte{0, 0, 0, 0})
	buf.Write(cmdBytes(f.Command))
	binary.Write(&buf, binary.LittleEndian, uint64(len(f.Payload)))
	buf.Write(f.Payload)
	return buf.Bytes()
}

// RawHeader renders only a classic 24-byte message header with arbitrary fields (hostile input).
func RawHeader(magic uint32, command string, length uint32, sum [4]byte) []byte {
	var buf bytes.Buffer
	binary.Write(&buf, binary.LittleEndian, magic)
	buf.Write(cmdBytes(command))
	binary.Write(&buf, binary.LittleEndian, length)
	buf.Write(sum[:])
	return buf.Bytes()
}

// ReadFrame parses one classic frame sent by the node.
func ReadFrame(r io.Reader) (Frame, error) {
	var hdr [24]byte
	if _, err := io.ReadFull(r, hdr[:]); err != nil {
		return Frame{}, err
	}
	if binary.LittleEndian.Uint32(hdr[0:4]) != Magic {
		return Frame{}, fmt.Errorf("bad magic %x", hdr[0:4])
	}
	cmd := string(bytes.TrimRight(hdr[4:16], "\x00"))
	n := binary.LittleEndian.Uint32(hdr[16:20])
	if n > 64<<20 {
		return Frame{}, fmt.Errorf("frame too large: %d", n)
	}
	payload := make([]byte, n)
	if _, err := io.ReadFull(r, payload); err != nil {
		return Frame{}, err
	}
	if !bytes.Equal(checksum(payload), hdr[20:24]) {
		return Frame{}, fmt.Errorf("bad checksum on %s", cmd)
	}
	return Frame{Command: cmd, Payload: payload}, nil
}

// ---------------------------------------------------------------------------------------------
// payload builders

func VarInt(n uint64) []byte {
	switch {
	case n < 0xfd:
		return []byte{byte(n)}
	case n <= 0xffff:
		b := []byte{0xfd, 0, 0}
		binary.LittleEndian.PutUint16(b[1:], uint16(n))
		return b
	case n <= 0xffffffff:
		b := []byte{0xfe, 0, 0, 0, 0}
		binary.LittleEndian.PutUint32(b[1:], uint32(n))
		return b
	}
	b := make([]byte, 9)
	b[0] = 0xff
	binary.LittleEndian.PutUint64(b[1:], n)
	return b
}

func Version(height int32) Frame {
	me := wire.NewNetAddressIPPort(net.IPv4(127, 0, 0, 1), 8333, 0)
	msg := wire.NewMsgVersion(me, me, 0x1122334455667788, height)
	msg.UserAgent = "/verif-peer:1/"
	var buf bytes.Buffer
	msg.BtcEncode(&buf, wire.ProtocolVersion)
	return Frame{Command: "version", Payload: buf.Bytes()}
}

func Verack() Frame { return Frame{Command: "verack"} }

func Ping(nonce uint64) Frame {
	b := make([]byte, 8)
	binary.LittleEndian.PutUint64(b, nonce)
	return Frame{Command: "ping", Payload: b}
}

func Pong(nonce uint64) Frame {
	f := Ping(nonce)
	f.Command = "pong"
	return f
}

func Headers(hs []model.RawHeader) Frame {
	var buf bytes.Buffer
	buf.Write(VarInt(uint64(len(hs))))
	for _, h := range hs {
		buf.Write(h.Bytes())
		buf.WriteByte(0)
	}
	return Frame{Command: "headers", Payload: buf.Bytes()}
}

func Inv(typ uint32, hashes []model.Hash) Frame {
	var buf bytes.Buffer
	buf.Write(VarInt(uint64(len(hashes))))
	for _, h := range hashes {
		binary.Write(&buf, binary.LittleEndian, typ)
		buf.Write(h[:])
	}
	return Frame{Command: "inv", Payload: buf.Bytes()}
}

func Addr(n int) Frame {
	var buf bytes.Buffer
	buf.Write(VarInt(uint64(n)))
	for i := 0; i < n; i++ {
		binary.Write(&buf, binary.LittleEndian, uint32(1600000000+i)) // time
		binary.Write(&buf, binary.LittleEndian, uint64(1))            // services
		ip := net.IPv4(10, byte(i>>16), byte(i>>8), byte(i)).To16()
		buf.Write(ip)
		binary.Write(&buf, binary.BigEndian, uint16(8333))
	}
	return Frame{Command: "addr", Payload: buf.Bytes()}
}

func GetAddr() Frame { return Frame{Command: "getaddr"} }

func Protoconf() Frame {
	var buf bytes.Buffer
	buf.Write(VarInt(2))
	binary.Write(&buf, binary.LittleEndian, uint32(2*1024*1024))
	buf.Write(VarInt(7))
	buf.WriteString("Default")
	return Frame{Command: "protoconf", Payload: buf.Bytes()}
}

// Tx builds a minimal distinct transaction (one input, one output) padded to about size bytes.
func Tx(seed uint32, size int) *wire.MsgTx {
	tx := wire.NewMsgTx(1)
	var prev bitcoin.Hash32
	binary.LittleEndian.PutUint32(prev[:], seed)
	prev[31] = 0x99
	script := make([]byte, 0)
	if size > 70 {
		script = bytes.Repeat([]byte{0x6a}, size-70)
	}
	tx.AddTxIn(wire.NewTxIn(wire.NewOutPoint(&prev, seed), []byte{0x51}))
	tx.AddTxOut(wire.NewTxOut(uint64(seed), script))
	return tx
}

func TxBytes(tx *wire.MsgTx) []byte {
	var buf bytes.Buffer
	tx.Serialize(&buf)
	return buf.Bytes()
}

func TxID(tx *wire.MsgTx) model.Hash { return model.Hash(*tx.TxHash()) }

func TxFrame(tx *wire.MsgTx, extended bool) Frame {
	return Frame{Command: "tx", Payload: TxBytes(tx), Extended: extended}
}

// Block renders header + tx count + transactions.
func Block(h model.RawHeader, txs []*wire.MsgTx, announced uint64, extended bool) Frame {
	var buf bytes.Buffer
	buf.Write(h.Bytes())
	buf.Write(VarInt(announced))
	for _, tx := range txs {
		buf.Write(TxBytes(tx))
	}
	return Frame{Command: "block", Payload: buf.Bytes(), Extended: extended}
}

// ---------------------------------------------------------------------------------------------
// scripted peer

type Peer struct {
	ln   net.Listener
	conn net.Conn

	mu     sync.Mutex
	got    []Frame
	closed bool
	rerr   error
	notify chan struct{}

	paused  int32 // StopReading
	closing bool  // Close was called

	// Fragment: piece sizes for SendRaw (nil = one write per send)
	Fragment []int
}

// GenFragmentSizes are the piece sizes legs draw from (around the 24-byte frame header and the
// 80/81-byte block header).
var GenFragmentSizes = []int{1, 3, 7, 20, 23, 24, 25, 40, 79, 80, 81, 100}

var listenCounter uint32

// ErrSetup marks failures of the harness's own plumbing (no free port, node did not connect in
// time): the driver reports them as inconclusive, never as a violation.
const SetupFailure = "HARNESS-SETUP-FAILURE"

// Listen opens the scripted peer's listener on one of the loopback addresses 127.0.0.2 ..
// 127.0.0.251 (varied per process and per call). The node connects FROM 127.0.0.1, so the client
// sockets that thousands of short sessions leave in TIME_WAIT (bound to 127.0.0.1:port for 60 s)
// never conflict with a listener bind, which on 127.0.0.1 exhausts the port range within a minute
// of a 16-process run ("bind: address already in use"). Failures are retried.
func Listen() (*Peer, error) { return ListenBuf(0) }

// ListenBuf is Listen with the receive buffer of the listening socket (inherited by the accepted
// connection, so in force from the first window the peer advertises) set to rcvbuf bytes when
// rcvbuf > 0: a peer that stops reading then blocks the node's writer after kilobytes.
func ListenBuf(rcvbuf int) (*Peer, error) {
	lc := net.ListenConfig{}
	if rcvbuf > 0 {
		lc.Control = func(network, address string, c syscall.RawConn) error {
			var serr error
			if err := c.Control(func(fd uintptr) {
				serr = syscall.SetsockoptInt(int(fd), syscall.SOL_SOCKET, syscall.SO_RCVBUF, rcvbuf)
			}); err != nil {
				return err
			}
			return serr
		}
	}
	var lastErr error
	for attempt := 0; attempt < 100; attempt++ {
		n := atomic.AddUint32(&listenCounter, 1)
		ip := 2 + (uint32(os.Getpid())*37+n)%250
		ln, err := lc.Listen(context.Background(), "tcp", fmt.Sprintf("127.0.0.%d:0", ip))
		if err == nil {
			return &Peer{ln: ln, notify: make(chan struct{}, 1)}, nil
		}
		lastErr = err
		time.Sleep(time.Duration(20+attempt*10) * time.Millisecond)
	}
	return nil, fmt.Errorf("%s: %w", SetupFailure, lastErr)
}

func (p *Peer) Addr() string { return p.ln.Addr().String() }

// Accept waits for the node to connect and starts the reader.
func (p *Peer) Accept(timeout time.Duration) error {
	p.ln.(*net.TCPListener).SetDeadline(time.Now().Add(timeout))
	c, err := p.ln.Accept()
	if err != nil {
		return err
	}
	p.conn = c
	go p.reader()
	return nil
}

// StopReading makes the peer stop taking bytes from the connection (after at most one more
// frame): the node's replies then pile up in the socket buffers and its writer blocks. The receive
// buffer is made small so that this takes kilobytes rather than megabytes.
func (p *Peer) StopReading() {
	if tc, ok := p.conn.(*net.TCPConn); ok {
		tc.SetReadBuffer(4096)
	}
	atomic.StoreInt32(&p.paused, 1)
}

func (p *Peer) reader() {
	for {
		for atomic.LoadInt32(&p.paused) == 1 {
			p.mu.Lock()
			closed := p.closing
			p.mu.Unlock()
			if closed {
				p.mu.Lock()
				p.closed = true
				p.mu.Unlock()
				p.wake()
				return
			}
			time.Sleep(time.Millisecond)
		}
		f, err := ReadFrame(p.conn)
		p.mu.Lock()
		if err != nil {
			p.closed, p.rerr = true, err
			p.mu.Unlock()
			p.wake()
			return
		}
		p.got = append(p.got, f)
		p.mu.Unlock()
		p.wake()
	}
}

func (p *Peer) wake() {
	select {
	case p.notify <- struct{}{}:
	default:
	}
}

func (p *Peer) Send(frames ...Frame) error {
	for _, f := range frames {
		if err := p.SendRaw(Encode(f)); err != nil {
			return err
		}
	}
	return nil
}

func (p *Peer) SendRaw(b []byte) error {
	p.conn.SetWriteDeadline(time.Now().Add(20 * time.Second))
	if len(p.Fragment) > 0 {
		// the first 160 bytes of every send go out in pieces of the given sizes (cyclically) with a
		// pause after each, the way TCP may segment a message at any byte
		sent, limit := 0, len(b)
		if limit > 160 {
			limit = 160
		}
		for i := 0; sent < limit; i++ {
			n := p.Fragment[i%len(p.Fragment)]
			if n < 1 {
				n = 1
			}
			if sent+n > limit {
				n = limit - sent
			}
			if _, err := p.conn.Write(b[sent : sent+n]); err != nil {
				return err
			}
			sent += n
			time.Sleep(150 * time.Microsecond)
		}
		b = b[sent:]
		if len(b) == 0 {
			return nil
		}
	}
	_, err := p.conn.Write(b)
	return err
}

// Received returns a copy of everything the node has sent so far.
func (p *Peer) Received() []Frame {
	p.mu.Lock()
	defer p.mu.Unlock()
	return append([]Frame(nil), p.got...)
}

func (p *Peer) Count(cmd string) int {
	n := 0
	for _, f := range p.Received() {
		if f.Command == cmd {
			n++
		}
	}
	return n
}

// Closed reports whether the node's side of the connection has ended.
func (p *Peer) Closed() bool {
	p.mu.Lock()
	defer p.mu.Unlock()
	return p.closed
}

// WaitFor waits until pred holds over the received frames (or the connection closed).
func (p *Peer) WaitFor(timeout time.Duration, pred func(got []Frame, closed bool) bool) bool {
	deadline := time.Now().Add(timeout)
	for {
		p.mu.Lock()
		ok := pred(p.got, p.closed)
		p.mu.Unlock()
		if ok {
			return true
		}
		left := time.Until(deadline)
		if left <= 0 {
			return false
		}
		select {
		case <-p.notify:
		case <-time.After(left):
		}
	}
}

// WaitCommand waits for the n-th (1-based) frame with the command.
func (p *Peer) WaitCommand(cmd string, n int, timeout time.Duration) bool {
	return p.WaitFor(timeout, func(got []Frame, closed bool) bool {
		c := 0
		for _, f := range got {
			if f.Command == cmd {
				c++
			}
		}
		return c >= n
	})
}

// WaitPong waits for a pong carrying nonce.
func (p *Peer) WaitPong(nonce uint64, timeout time.Duration) bool {
	want := Pong(nonce).Payload
	return p.WaitFor(timeout, func(got []Frame, closed bool) bool {
		for _, f := range got {
			if f.Command == "pong" && bytes.Equal(f.Payload, want) {
				return true
			}
		}
		return false
	})
}

func (p *Peer) WaitClosed(timeout time.Duration) bool {
	return p.WaitFor(timeout, func(got []Frame, closed bool) bool { return closed })
}

func (p *Peer) Close() {
	p.mu.Lock()
	p.closing = true
	p.mu.Unlock()
	if p.conn != nil {
		p.conn.Close()
	}
	p.ln.Close()
}

// Package vt holds small helpers shared by the property packages.
package vt

import (
	"context"
	"encoding/json"
	"os"
	"path/filepath"
	"runtime"
	"strconv"
	"testing"

	"verifharness/internal/evid"

	"github.com/tokenized/logger"
)

// Ctx returns a context whose logger discards everything.
func Ctx() context.Context {
	if os.Getenv("VERIF_DEBUG") != "" {
		return logger.ContextWithLogConfig(context.Background(), logger.NewConfig(true, false, ""))
	}
	return logger.ContextWithNoLogger(context.Background())
}

// Main is the TestMain body of every property package.
func Main(m *testing.M) {
	code := m.Run()
	evid.Flush()
	os.Exit(code)
}

// Scale returns the case-count multiplier requested by the driver (VERIF_SCALE, default 1).
func Scale() int {
	if v, err := strconv.Atoi(os.Getenv("VERIF_SCALE")); err == nil && v > 0 {
		return v
	}
	return 1
}

type Finding struct {
	Key      string `json:"key"`
	Property string `json:"property"`
	What     string `json:"what"`
}

type findingsFile struct {
	Open  []Finding         `json:"open"`
	Fixed []json.RawMessage `json:"fixed"`
}

var openFindings map[string]Finding

func root() string {
	if p := os.Getenv("VERIF_ROOT"); p != "" {
		return p
	}
	_, file, _, _ := runtime.Caller(0)
	return filepath.Join(filepath.Dir(file), "..", "..", "..")
}

// OpenFinding reports whether key is listed as an open known finding in known_findings.json.
func OpenFinding(key string) (Finding, bool) {
	if openFindings == nil {
		openFindings = map[string]Finding{}
		data, err := os.ReadFile(filepath.Join(root(), "known_findings.json"))
		if err == nil {
			var f findingsFile
			if json.Unmarshal(data, &f) == nil {
				for _, o := range f.Open {
					openFindings[o.Key] = o
				}
			}
		}
	}
	f, ok := openFindings[key]
	return f, ok
}

// Catch runs f and returns a recovered panic value (nil when f returned normally).
func Catch(f func()) (p interface{}) {
	defer func() { p = recover() }()
	f()
	return nil
}

// KnownFinding handles a regression replay of a recorded finding: when the concrete input still
// fails and the finding is listed as open, a KNOWN-FINDING line is printed (and true returned so
// generators exclude the class); when it fails but is not listed, the test fails (a violation);
// when it no longer fails nothing is printed.
func KnownFinding(t *testing.T, col *evid.Collector, key string, stillFails bool, detail string) {
	f, listed := OpenFinding(key)
	switch {
	case stillFails && listed:
		col.Known(key, f.What)
	case stillFails && !listed:
		t.Fatalf("%s: %s", key, detail)
	}
}

package peers

import (
	"bytes"
	"encoding/binary"
	"fmt"
	"sort"
	"sync"
	"testing"

	"verifharness/internal/evid"
	"verifharness/internal/memstore"
	"verifharness/internal/vt"

	bitcoin_reader "github.com/tokenized/bitcoin_reader"
	"pgregory.net/rapid"
)

func TestMain(m *testing.M) { vt.Main(m) }

type mpeer struct {
	score int32
	time  uint32
}

var addrPool = []string{"", "a", "b", "[::1]:8333", "1.2.3.4:8333", "héllo-wörld:1", "日本語", "x\x00y",
	string(bytes.Repeat([]byte("L"), 300)), "\xff\xfe", "a ", " a"}

func genAddr() *rapid.Generator[string] {
	return rapid.OneOf(rapid.SampledFrom(addrPool), rapid.StringN(0, 12, 40))
}

func snapshot(t *rapid.T, r *bitcoin_reader.StoragePeerRepository) map[string]mpeer {
	list, err := r.Get(vt.Ctx(), -2147483648, -1)
	if err != nil {
		t.Fatalf("Get all: %s", err)
	}
	res := map[string]mpeer{}
	for _, p := range list {
		if _, dup := res[p.Address]; dup {
			t.Fatalf("address %q held more than once", p.Address)
		}
		res[p.Address] = mpeer{p.Score, p.LastTime}
	}
	return res
}

const ruleModel = "rapid state machine over Add/UpdateScore/UpdateTime/Get/Save/Load(same|fresh repo)/Clear on a copying in-memory store, compared with a map model after every step; non-trivial = history contains a Save+Load after at least one score update on >=2 distinct addresses; distinct = hash of the abstract op list"

// TestProp_C20_model: the address book agrees with a map model.
func TestProp_C20_model(t *testing.T) {
	col := evid.For("C20", "model", ruleModel)
	rapid.Check(t, func(t *rapid.T) {
		k := col.NewCase()
		ctx := vt.Ctx()
		store := memstore.New()
		path := rapid.SampledFrom([]string{"", "peers", "p/q"}).Draw(t, "path")
		repo := bitcoin_reader.NewPeerRepository(store, path)
		model := map[string]mpeer{}
		saved := map[string]mpeer(nil) // model of what is in storage (nil = nothing stored)
		updates := 0
		check := func() {
			got := snapshot(t, repo)
			if repo.Count() != len(model) {
				t.Fatalf("Count()=%d, model has %d", repo.Count(), len(model))
			}
			if len(got) != len(model) {
				t.Fatalf("Get(all) returned %d distinct peers, model %d", len(got), len(model))
			}
			for a, m := range model {
				g, ok := got[a]
				if !ok {
					t.Fatalf("peer %q missing", a)
				}
				if g.score != m.score {
					t.Fatalf("peer %q score %d, model (sum of deltas) %d", a, g.score, m.score)
				}
			}
		}
		syncTimes := func() { // last-seen times are wall clock: adopt them into the model
			got := snapshot(t, repo)
			for a, g := range got {
				if m, ok := model[a]; ok {
					m.time = g.time
					model[a] = m
				}
			}
		}
		pick := func(t *rapid.T) string { // mostly addresses already in the book
			if len(model) > 0 && rapid.IntRange(0, 9).Draw(t, "known") < 7 {
				keys := make([]string, 0, len(model))
				for a := range model {
					keys = append(keys, a)
				}
				sort.Strings(keys)
				return rapid.SampledFrom(keys).Draw(t, "addr")
			}
			return genAddr().Draw(t, "addr")
		}
		var heldList bitcoin_reader.PeerList // the previous Get result, still held by the caller
		var heldAddrs []string
		t.Repeat(map[string]func(*rapid.T){
			"add": func(t *rapid.T) {
				a := genAddr().Draw(t, "addr")
				added, err := repo.Add(ctx, a)
				if err != nil {
					t.Fatalf("Add: %s", err)
				}
				_, had := model[a]
				if added == had {
					t.Fatalf("Add(%q) returned %v but model had=%v", a, added, had)
				}
				if !had {
					model[a] = mpeer{}
				}
				k.Op("add new=%v", !had)
			},
			"score": func(t *rapid.T) {
				a := pick(t)
				cur, had := model[a]
				// keep the running sum inside int32 (statement: score = sum of deltas)
				lo, hi := int64(-2147483648)-int64(cur.score), int64(2147483647)-int64(cur.score)
				if lo < -2147483648 {
					lo = -2147483648
				}
				if hi > 2147483647 {
					hi = 2147483647
				}
				d := int32(rapid.OneOf(rapid.Int64Range(lo, hi), rapid.Int64Range(max64(lo, -6), min64(hi, 6))).Draw(t, "delta"))
				ok := repo.UpdateScore(ctx, a, d)
				if ok != had {
					t.Fatalf("UpdateScore(%q) returned %v, model had=%v", a, ok, had)
				}
				if had {
					cur.score += d
					model[a] = cur
					updates++
					syncTimes()
				}
				k.Op("score known=%v sign=%d", had, sign(d))
			},
			"time": func(t *rapid.T) {
				a := pick(t)
				_, had := model[a]
				if ok := repo.UpdateTime(ctx, a); ok != had {
					t.Fatalf("UpdateTime(%q) returned %v, model had=%v", a, ok, had)
				}
				syncTimes()
				k.Op("time known=%v", had)
			},
			"get": func(t *rapid.T) {
				min := int32(rapid.OneOf(rapid.Int32Range(-8, 8), rapid.Int32()).Draw(t, "min"))
				max := int32(rapid.OneOf(rapid.Int32Range(-8, 8), rapid.Int32(), rapid.Just(int32(-1))).Draw(t, "max"))
				list, err := repo.Get(ctx, min, max)
				if err != nil {
					t.Fatalf("Get: %s", err)
				}
				var got, want []string
				for _, p := range list {
					got = append(got, p.Address)
				}
				for a, m := range model {
					if m.score >= min && (max == -1 || m.score <= max) {
						want = append(want, a)
					}
				}
				sort.Strings(got)
				sort.Strings(want)
				if fmt.Sprint(got) != fmt.Sprint(want) {
					t.Fatalf("Get(%d,%d) = %q, model %q", min, max, got, want)
				}
				// A result belongs to the caller: an earlier result must still list the same
				// addresses after this (or any later) call - a caller that queries two score
				// ranges holds two results at once.
				if heldList != nil {
					var now []string
					for _, p := range heldList {
						now = append(now, p.Address)
					}
					if fmt.Sprint(now) != fmt.Sprint(heldAddrs) {
						t.Fatalf("the result of an earlier Get changed after a later Get(%d,%d): it listed %q, now lists %q", min, max, heldAddrs, now)
					}
				}
				heldList = list
				heldAddrs = nil
				for _, p := range list {
					heldAddrs = append(heldAddrs, p.Address)
				}
				k.Op("get unbounded=%v empty=%v", max == -1, len(want) == 0)
			},
			"save": func(t *rapid.T) {
				if err := repo.Save(ctx); err != nil {
					t.Fatalf("Save: %s", err)
				}
				saved = map[string]mpeer{}
				for a, m := range model {
					saved[a] = m
				}
				k.Op("save n=%d", bucket(len(model)))
			},
			"load": func(t *rapid.T) {
				fresh := rapid.Bool().Draw(t, "fresh")
				if fresh {
					repo = bitcoin_reader.NewPeerRepository(store, path)
				}
				if err := repo.Load(ctx); err != nil {
					t.Fatalf("Load: %s", err)
				}
				model = map[string]mpeer{}
				for a, m := range saved {
					model[a] = m
				}
				got := snapshot(t, repo)
				for a, m := range model {
					if got[a] != m {
						t.Fatalf("after Save+Load peer %q = %+v, saved %+v", a, got[a], m)
					}
				}
				if saved != nil && updates > 0 && len(saved) >= 2 {
					k.Class("saveload_after_updates")
					k.NonTrivial = true
				}
				k.Op("load fresh=%v stored=%v", fresh, saved != nil)
			},
			"clear": func(t *rapid.T) {
				_ = repo.Clear(ctx) // returns storage.ErrNotFound when nothing was stored
				model = map[string]mpeer{}
				saved = nil
				k.Op("clear")
			},
			"": func(t *rapid.T) { check() },
		})
		k.Done()
	})
}

func sign(d int32) int {
	if d < 0 {
		return -1
	}
	if d > 0 {
		return 1
	}
	return 0
}
func bucket(n int) int {
	switch {
	case n < 3:
		return n
	case n < 8:
		return 3
	default:
		return 8
	}
}
func max64(a, b int64) int64 {
	if a > b {
		return a
	}
	return b
}
func min64(a, b int64) int64 {
	if a < b {
		return a
	}
	return b
}

func buildRepo(t *rapid.T, store *memstore.Store) (*bitcoin_reader.StoragePeerRepository, []string) {
	ctx := vt.Ctx()
	repo := bitcoin_reader.NewPeerRepository(store, "")
	addrs := rapid.SliceOfNDistinct(genAddr(), 0, 12, func(s string) string { return s }).Draw(t, "addrs")
	for _, a := range addrs {
		repo.Add(ctx, a)
		if rapid.Bool().Draw(t, "upd") {
			repo.UpdateScore(ctx, a, rapid.Int32Range(-100, 100).Draw(t, "d"))
		}
	}
	return repo, addrs
}

const rulePrefix = "draw 0..12 distinct peers with scores, Save, then Load from EVERY byte prefix of the saved file (exhaustive per case); oracle: no panic, and every peer whose record ends before the cut is kept with address/score/time intact; non-trivial = file with >=2 peers (so cuts fall inside and between records); distinct = (peer count bucket, address length multiset)"

// TestProp_C20_prefix: a peers file cut short at any byte loads without crashing and keeps all
// fully written peers.
func TestProp_C20_prefix(t *testing.T) {
	col := evid.For("C20", "prefix", rulePrefix)
	rapid.Check(t, func(t *rapid.T) {
		k := col.NewCase()
		ctx := vt.Ctx()
		store := memstore.New()
		repo, addrs := buildRepo(t, store)
		if err := repo.Save(ctx); err != nil {
			t.Fatalf("Save: %s", err)
		}
		full, _ := store.Read(ctx, "peers")
		want := snapshotPlain(repo)
		// record end offsets
		ends := map[string]int{}
		off := 5
		for _, a := range addrs {
			off += 4 + len(a) + 8
			ends[a] = off
		}
		lens := []int{}
		for _, a := range addrs {
			lens = append(lens, len(a))
		}
		sort.Ints(lens)
		k.Op("n=%d lens=%v", len(addrs), lens)
		for cut := 0; cut <= len(full); cut++ {
			s2 := memstore.New()
			s2.Write(ctx, "peers", full[:cut], nil)
			r2 := bitcoin_reader.NewPeerRepository(s2, "")
			var err error
			if p := vt.Catch(func() { err = r2.Load(ctx) }); p != nil {
				t.Fatalf("Load of %d-byte prefix (of %d) panicked: %v", cut, len(full), p)
			}
			if cut < 5 {
				continue // header incomplete: an error return is fine
			}
			if err != nil {
				t.Fatalf("Load of %d-byte prefix (of %d) failed: %s", cut, len(full), err)
			}
			got := snapshotPlain(r2)
			for a, end := range ends {
				if end <= cut {
					if g, ok := got[a]; !ok || g != want[a] {
						t.Fatalf("prefix %d/%d: peer %q (record ends at %d) lost or changed: got %+v ok=%v want %+v", cut, len(full), a, end, g, ok, want[a])
					}
				}
			}
			col.Count("loads", 1)
		}
		k.NonTrivial = len(addrs) >= 2
		k.Done()
	})
}

func snapshotPlain(r *bitcoin_reader.StoragePeerRepository) map[string]mpeer {
	list, _ := r.Get(vt.Ctx(), -2147483648, -1)
	res := map[string]mpeer{}
	for _, p := range list {
		res[p.Address] = mpeer{p.Score, p.LastTime}
	}
	return res
}

const ruleBytes = "structured arbitrary file contents: version byte, count field (any int32 incl. negative/huge), records with address sizes from {valid, negative, larger than the remaining bytes, up to 2^20}, random tail; oracle: Load returns (nil or error) without panic and afterwards Count()==len(Get(all)); non-trivial = a negative or oversized size/count field present; distinct = field-class list"

func genHostileFile() *rapid.Generator[[]byte] {
	return rapid.Custom(func(t *rapid.T) []byte {
		var buf bytes.Buffer
		buf.WriteByte(rapid.SampledFrom([]byte{0, 0, 0, 1, 255}).Draw(t, "version"))
		cnt := rapid.OneOf(rapid.Int32Range(0, 5), rapid.Int32Range(-5, -1), rapid.Int32(), rapid.Just(int32(-2147483648)), rapid.Int32Range(1<<20, 1<<24)).Draw(t, "count")
		binary.Write(&buf, binary.LittleEndian, cnt)
		n := rapid.IntRange(0, 4).Draw(t, "records")
		for i := 0; i < n; i++ {
			addr := genAddr().Draw(t, "addr")
			size := int32(len(addr))
			switch rapid.IntRange(0, 5).Draw(t, "sizeclass") {
			case 0:
				size = rapid.Int32Range(-2147483648, -1).Draw(t, "neg")
			case 1:
				size = rapid.Int32Range(int32(len(addr))+1, 1<<20).Draw(t, "big")
			}
			binary.Write(&buf, binary.LittleEndian, size)
			buf.WriteString(addr)
			binary.Write(&buf, binary.LittleEndian, rapid.Int32().Draw(t, "score"))
			binary.Write(&buf, binary.LittleEndian, rapid.Uint32().Draw(t, "time"))
		}
		buf.Write(rapid.SliceOfN(rapid.Byte(), 0, 9).Draw(t, "tail"))
		b := buf.Bytes()
		if rapid.Bool().Draw(t, "truncate") && len(b) > 0 {
			b = b[:rapid.IntRange(0, len(b)).Draw(t, "cut")]
		}
		return b
	})
}

func classifyFile(b []byte) (cls []string, hostile bool) {
	if len(b) < 5 {
		return []string{"short"}, false
	}
	cnt := int32(binary.LittleEndian.Uint32(b[1:5]))
	if cnt < 0 {
		cls = append(cls, "count<0")
		hostile = true
	} else if cnt > 1000 {
		cls = append(cls, "count-huge")
		hostile = true
	}
	off := 5
	for off+4 <= len(b) {
		sz := int32(binary.LittleEndian.Uint32(b[off : off+4]))
		if sz < 0 {
			cls = append(cls, "size<0")
			hostile = true
			break
		}
		if int(sz) > len(b)-off-4 {
			cls = append(cls, "size>rest")
			hostile = true
			break
		}
		cls = append(cls, "rec")
		off += 4 + int(sz) + 8
	}
	return cls, hostile
}

func loadBytes(data []byte) (panicked interface{}, err error, count, listed int) {
	ctx := vt.Ctx()
	s := memstore.New()
	s.Write(ctx, "peers", data, nil)
	r := bitcoin_reader.NewPeerRepository(s, "")
	panicked = vt.Catch(func() { err = r.Load(ctx) })
	if panicked == nil {
		count = r.Count()
		l, _ := r.Get(ctx, -2147483648, -1)
		listed = len(l)
	}
	return
}

// TestProp_C20_bytes: loading arbitrary stored bytes never crashes.
func TestProp_C20_bytes(t *testing.T) {
	col := evid.For("C20", "bytes", ruleBytes)
	rapid.Check(t, func(t *rapid.T) {
		k := col.NewCase()
		data := genHostileFile().Draw(t, "file")
		cls, hostile := classifyFile(data)
		k.Op("%v", cls)
		for _, c := range cls {
			k.Class(c)
		}
		p, _, count, listed := loadBytes(data)
		if p != nil {
			t.Fatalf("Load of %d bytes %x panicked: %v", len(data), data, p)
		}
		if count != listed {
			t.Fatalf("Count()=%d but Get(all) lists %d", count, listed)
		}
		k.NonTrivial = hostile
		k.Done()
	})
}

const ruleConc = "2..6 barrier-started goroutines each run a drawn script of Add/UpdateScore/UpdateTime/Get/Count over a shared address pool (plus one Saver); oracle (must hold for every linearisation): each address once, final score = sum of all successfully applied deltas, Save+Load of the final state round-trips; non-trivial = >=2 goroutines updated the same address; distinct = script shape"

// TestProp_C20_concurrent: concurrent callers keep the book consistent.
func TestProp_C20_concurrent(t *testing.T) {
	col := evid.For("C20", "concurrent", ruleConc)
	rapid.Check(t, func(t *rapid.T) {
		k := col.NewCase()
		ctx := vt.Ctx()
		store := memstore.New()
		repo := bitcoin_reader.NewPeerRepository(store, "")
		pool := addrPool[:rapid.IntRange(1, 5).Draw(t, "pool")]
		for _, a := range pool { // all addresses exist up front so every UpdateScore applies
			repo.Add(ctx, a)
		}
		type step struct {
			op    int
			addr  string
			delta int32
		}
		g := rapid.IntRange(2, 6).Draw(t, "goroutines")
		scripts := make([][]step, g)
		want := map[string]int64{}
		touched := map[string]map[int]bool{}
		for i := range scripts {
			n := rapid.IntRange(1, 12).Draw(t, "len")
			for j := 0; j < n; j++ {
				s := step{op: rapid.IntRange(0, 5).Draw(t, "op"), addr: rapid.SampledFrom(pool).Draw(t, "addr"), delta: rapid.Int32Range(-50, 50).Draw(t, "delta")}
				scripts[i] = append(scripts[i], s)
				if s.op == 1 {
					want[s.addr] += int64(s.delta)
					if touched[s.addr] == nil {
						touched[s.addr] = map[int]bool{}
					}
					touched[s.addr][i] = true
				}
			}
			k.Op("g%d len=%d", i, n)
		}
		start := make(chan struct{})
		var wg sync.WaitGroup
		for i := range scripts {
			wg.Add(1)
			go func(sc []step) {
				defer wg.Done()
				<-start
				for _, s := range sc {
					switch s.op {
					case 0:
						repo.Add(ctx, s.addr)
					case 1:
						repo.UpdateScore(ctx, s.addr, s.delta)
					case 2:
						repo.UpdateTime(ctx, s.addr)
					case 3:
						repo.Get(ctx, -10, -1)
					case 4:
						repo.Count()
					case 5:
						repo.Save(ctx)
					}
				}
			}(scripts[i])
		}
		close(start)
		wg.Wait()
		got := snapshot(t, repo)
		if len(got) != len(pool) || repo.Count() != len(pool) {
			t.Fatalf("have %d/%d peers, want %d", len(got), repo.Count(), len(pool))
		}
		for _, a := range pool {
			if int64(got[a].score) != want[a] {
				t.Fatalf("peer %q score %d, want sum of deltas %d", a, got[a].score, want[a])
			}
		}
		if err := repo.Save(ctx); err != nil {
			t.Fatalf("Save: %s", err)
		}
		r2 := bitcoin_reader.NewPeerRepository(store, "")
		if err := r2.Load(ctx); err != nil {
			t.Fatalf("Load: %s", err)
		}
		got2 := snapshot(t, r2)
		for a, m := range got {
			if got2[a] != m {
				t.Fatalf("round trip changed %q: %+v -> %+v", a, m, got2[a])
			}
		}
		for _, gs := range touched {
			if len(gs) >= 2 {
				k.NonTrivial = true
				k.Class("shared_address_updates")
			}
		}
		k.Done()
	})
}

// FuzzC20Load is the coverage-guided byte-level target (thorough tier).
func FuzzC20Load(f *testing.F) {
	f.Add([]byte{0, 1, 0, 0, 0, 1, 0, 0, 0, 'a', 5, 0, 0, 0, 9, 0, 0, 0})
	f.Add([]byte{0, 0xff, 0xff, 0xff, 0xff})
	f.Add([]byte{0, 0, 0, 0, 0, 0xff, 0xff, 0xff, 0xff})
	f.Add([]byte{0, 0, 0, 0, 0, 0xff, 0xff, 0xff, 0x7f})
	f.Add([]byte{})
	f.Fuzz(func(t *testing.T, data []byte) {
		p, _, count, listed := loadBytes(data)
		if p != nil {
			t.Fatalf("Load panicked: %v", p)
		}
		if count != listed {
			t.Fatalf("Count()=%d but Get(all) lists %d", count, listed)
		}
	})
}

// Regression replays (no library involved): shrunk failures seen so far.
func TestRegr_C20_negative_size(t *testing.T) {
	for _, data := range [][]byte{
		{0, 0, 0, 0, 0, 0xff, 0xff, 0xff, 0xff},       // address size -1
		{0, 0xff, 0xff, 0xff, 0xff},                   // count -1
		{0, 0, 0, 0, 0x80},                            // count -2^31
		{0, 1, 0, 0, 0, 0, 0, 0, 0x80, 'x', 'y', 'z'}, // size -2^31
	} {
		if p, _, _, _ := loadBytes(data); p != nil {
			t.Fatalf("Load(%x) panicked: %v", data, p)
		}
	}
}

package hdr

// The shared history machine for the header repository properties (C01, C07..C12, C17, C19).
// One generated history drives one or two real headers.Repository instances and the reference
// block-tree model; which oracles run after each step is selected by the Focus of the leg.

import (
	"fmt"
	"math/big"
	"sort"
	"strings"
	"testing"
	"time"

	"verifharness/internal/evid"
	"verifharness/internal/memstore"
	"verifharness/internal/model"
	"verifharness/internal/vt"

	"github.com/pkg/errors"
	"github.com/tokenized/bitcoin_reader/headers"
	"github.com/tokenized/pkg/bitcoin"
	"github.com/tokenized/pkg/wire"
	"pgregory.net/rapid"
)

func TestMain(m *testing.M) { vt.Main(m) }

type Verdict int

const (
	VOK Verdict = iota
	VUnknown
	VInvalid
	VDepth
	VWrongChain
	VBadWork
	VOther
)

func (v Verdict) String() string {
	return [...]string{"ok", "unknown-parent", "marked-invalid", "beyond-max-depth", "wrong-chain", "bad-work", "OTHER"}[v]
}

func classify(err error) Verdict {
	if err == nil {
		return VOK
	}
	switch errors.Cause(err) {
	case headers.ErrUnknownHeader:
		return VUnknown
	case headers.ErrHeaderMarkedInvalid:
		return VInvalid
	case headers.ErrBeyondMaxBranchDepth:
		return VDepth
	case headers.ErrWrongChain:
		return VWrongChain
	case headers.ErrNotEnoughWork, headers.ErrInvalidTarget:
		return VBadWork
	}
	return VOther
}

func toWire(r *model.RawHeader) *wire.BlockHeader {
	return &wire.BlockHeader{Version: r.Version, PrevBlock: bitcoin.Hash32(r.Prev),
		MerkleRoot: bitcoin.Hash32(r.Merkle), Timestamp: r.Timestamp, Bits: r.Bits, Nonce: r.Nonce}
}

func fromWire(h *wire.BlockHeader) model.RawHeader {
	return model.RawHeader{Version: h.Version, Prev: model.Hash(h.PrevBlock), Merkle: model.Hash(h.MerkleRoot),
		Timestamp: h.Timestamp, Bits: h.Bits, Nonce: h.Nonce}
}

var mainGenesis = model.RawHeader{Version: 1,
	Merkle:    mustHash("4a5e1e4baab89f3a32518a88c31bc87f618f76673e2cc77ab2127b7afdeda33b"),
	Timestamp: 1231006505, Bits: 0x1d00ffff, Nonce: 2083236893}

func mustHash(s string) model.Hash {
	h, err := bitcoin.NewHash32FromStr(s)
	if err != nil {
		panic(err)
	}
	return model.Hash(*h)
}

// Sub is a subscriber that reconstructs the best chain from the new-header stream.
type Sub struct {
	ch    <-chan *wire.BlockHeader
	chain []model.Hash // index = height
	// received while a submission was still in progress (real-depth stream leg)
	pending []*wire.BlockHeader
}

// Inst is one repository instance with the model's view of what it accepted and must still hold.
type Inst struct {
	name         string
	repo         *headers.Repository
	store        *memstore.Store
	acc          model.Set // headers this instance accepted (or restored)
	held         model.Set // subset the instance is obliged to still recognise as attach points
	invalid      map[model.Hash]bool
	excluded     model.Set // accepted once, removed by an invalid mark
	lastReported *model.Node
	cfgAmbiguous map[model.Hash]bool // configured invalid hashes whose status after a Load is open
	forgot       model.Set           // accepted by a previous generation, not restored by Load (dropped side branches)
	subs         []*Sub

	lastSaveWork *big.Int // work of the tip at the last completed Save (C12)
	floor        int      // upper bound of the lowest best-chain height still in memory

	// mainTip is the last header of the chain the implementation keeps as its genesis-rooted
	// main branch (the best chain at the last consolidation, plus pure extensions).
	mainTip *model.Node
}

type Focus struct {
	ID           string
	Verdicts     bool // compare every ProcessHeader answer with the reference verdict
	RefusalSnap  bool // full snapshot (incl. Save image) equality around non-accepting answers
	Lookups      bool // all lookups of all headers after every step
	Stream       bool // subscribers
	Twin         bool // Save+Load twin in lock-step
	Crash        bool // crash images of every Clean/Save
	Marks        bool // mark/unmark operations
	CleanSnap    bool // snapshot equality around Clean
	Locators     bool
	RealDepth    bool // use the real Clean/Load (depth 10000) instead of the hooks
	NoDeepReorgs bool
	DeepReorgs   bool // small regime without the reorganisation-depth precondition (stale forks may overtake)
	StaleForks   bool // real-depth: always build 2..3 stale forks with the prune boundary among their tips
}

type M struct {
	t              *rapid.T
	k              *evid.Case
	f              Focus
	mbd            int
	depth          int // hook prune depth
	tree           *model.Tree
	insts          []*Inst
	ctr            uint32
	base           int          // number of base-chain headers (real-depth regime)
	unmarked       []model.Hash // hashes unmarked in this history (re-offered later, also after a Load)
	cfgInvalid     []model.Hash // Config.InvalidHeaderHashes of every instance of this history
	bulks          int
	actionsEnabled map[string]int // the weights of the running leg (operations it includes)
	bulk           model.Set      // headers added by bulk growth: checked like base-chain headers (sampled heights)
	finalCheck     bool

	// history statistics for the non-trivial rules
	reorgs, siblingReorgs, maintBetweenReorgs, heavierShorter, firstHeaderReorgs int
	maintSinceReorg                                                              bool
	refusalClasses                                                               map[Verdict]int
	atDepthAccept, beyondDepthRefuse                                             int
	cleans, cleansMultiBranch, postCleanOvertake, loads, saves                   int
	sideAtSave, sideExtendAfterLoad                                              int
	storageServed, sideLookupAfterClean, crashCount, crashMidCount               int
	marksOnBest, marksSide, unmarks                                              int
	subsCount, reaccepted                                                        int
	blocks                                                                       []*block
	peerSyncs                                                                    int
	proofs, corruptProofs, sideProofs, prunedProofs                              int
	pending                                                                      []model.RawHeader // marked before being seen
	sideBornBeforeClean                                                          map[*model.Node]bool
}

var bitsLadder = []uint32{0x1d00ffff, 0x1d00ffff, 0x1d00ffff, 0x1c7fffff, 0x1d00aaaa, 0x1c00ffff, 0x1b00ffff}

func (m *M) ctx() interface{} { return nil }

func newMachine(t *rapid.T, k *evid.Case, f Focus) *M {
	if !f.RealDepth && !f.Crash && !f.NoDeepReorgs {
		// two thirds of the small-regime histories have no bound on the depth of a
		// reorganisation (a stale fork may overtake from below the prune depth)
		f.DeepReorgs = rapid.IntRange(0, 2).Draw(t, "deepReorgs") > 0
		if f.DeepReorgs {
			k.Class("reorg_depth_unbounded")
		}
	}
	m := &M{t: t, k: k, f: f, tree: model.NewTree(mainGenesis), refusalClasses: map[Verdict]int{},
		sideBornBeforeClean: map[*model.Node]bool{}}
	m.depth = rapid.IntRange(3, 12).Draw(t, "pruneDepth")
	m.mbd = rapid.SampledFrom([]int{0, 1, 2, 3, 5, 8, 12, 144}).Draw(t, "maxBranchDepth")
	if m.mbd > m.depth && !f.RealDepth {
		m.mbd = m.depth // precondition: MaxBranchDepth <= prune depth (production 144 <= 10000)
	}
	if f.RealDepth {
		m.depth = 10000
		m.mbd = rapid.SampledFrom([]int{144, 144, 144, 6, 30}).Draw(t, "realMaxBranchDepth")
	}
	k.Op("cfg depth=%d mbd=%d", m.depth, m.mbd)
	if f.Marks && !f.RealDepth {
		// hashes listed as invalid in the configuration (Config.InvalidHeaderHashes): headers not
		// seen yet (children of genesis); every Load merges the configured list into the stored one
		for i := rapid.SampledFrom([]int{0, 0, 1, 2}).Draw(t, "configuredInvalid"); i > 0; i-- {
			raw := m.newHeader(mainGenesis.Hash(), mainGenesis.Timestamp, 0x1d00ffff)
			m.pending = append(m.pending, raw)
			m.cfgInvalid = append(m.cfgInvalid, raw.Hash())
		}
		if len(m.cfgInvalid) > 0 {
			k.Op("config lists %d invalid header hashes", len(m.cfgInvalid))
			k.Class("configured_invalid_hashes")
		}
	}
	store := memstore.New()
	inst := m.newInst("A", store)
	for _, h := range m.cfgInvalid {
		inst.invalid[h] = true
	}
	if rapid.Bool().Draw(t, "startByLoad") {
		// production start: Load on empty storage initialises with genesis
		if err := m.load(inst); err != nil {
			t.Fatalf("Load on empty storage: %s", err)
		}
		k.Op("start load-empty")
	} else {
		inst.repo.InitializeWithGenesis()
		k.Op("start genesis")
	}
	inst.acc[m.tree.Genesis] = true
	inst.held[m.tree.Genesis] = true
	inst.mainTip = m.tree.Genesis
	m.insts = []*Inst{inst}
	if f.RealDepth {
		m.buildBase(t, inst)
	}
	return m
}

// buildBase submits a long straight chain (real-depth regime): lengths around the prune depth,
// the 1000-header file boundaries and the automatic clean at heights 10000 / 20000.
func (m *M) buildBase(t *rapid.T, inst *Inst) {
	lengths := []int{9990, 9998, 10003, 10040, 19995, 20050, 10990, 11005}
	if m.f.Stream {
		// the stream leg wants the automatic clean (height 10000 / 20000) inside the generated part
		lengths = []int{9990, 9998, 9994, 19995, 19990, 10003, 10990}
	}
	n := rapid.SampledFrom(lengths).Draw(t, "baseLength")
	// stale forks: short side branches created early (within MaxBranchDepth of the tip at that
	// moment, in a drawn order) that the base chain then outgrows by more than the prune depth
	type stale struct{ fork, length int }
	var stales []stale
	staleAt := rapid.IntRange(100, 260).Draw(t, "staleAt")
	lo, hi := 1<<30, 0
	nStale := rapid.SampledFrom([]int{0, 0, 1, 2, 2, 3}).Draw(t, "staleForks")
	if m.f.StaleForks {
		nStale = rapid.IntRange(2, 3).Draw(t, "staleForksMany")
	}
	prevFork, prevTip := 0, 0
	for s := 0; s < nStale; s++ {
		f := rapid.IntRange(staleAt-min(m.mbd, 140), staleAt-2).Draw(t, "staleFork")
		if s > 0 && prevTip > prevFork+1 && rapid.Bool().Draw(t, "overlapPrevious") {
			// fork from the base chain inside the span of the previous stale fork
			f = rapid.IntRange(prevFork+1, min(prevTip, staleAt-2)).Draw(t, "overlapFork")
		}
		if f < 1 {
			f = 1
		}
		l := rapid.IntRange(1, staleAt-f-1).Draw(t, "staleLen")
		stales = append(stales, stale{f, l})
		prevFork, prevTip = f, f+l
		lo, hi = min(lo, f+l), max(hi, f+l)
	}
	if len(stales) > 1 && rapid.Bool().Draw(t, "reverseCreationOrder") {
		for i, j := 0, len(stales)-1; i < j; i, j = i+1, j-1 {
			stales[i], stales[j] = stales[j], stales[i]
		}
	}
	if len(stales) > 0 && (m.f.StaleForks || rapid.Bool().Draw(t, "pruneBoundaryAmongStaleTips")) {
		n = 10000 + rapid.IntRange(max(1, lo-3), hi+3).Draw(t, "baseOver")
	}
	m.k.Op("base chain %d stale forks %v (created at %d)", n, stales, staleAt)
	// C18: some base-chain headers are blocks with known transactions (history that is later
	// served from storage, around the file and prune boundaries)
	blockAt := map[int]bool{}
	if m.f.ID == "C18" {
		for _, h := range []int{1, 2, 999, 1000, 1001, n - 10001, n - 10000, n - 9999, n - 9000, n - 150, n - 1, n} {
			if h >= 1 {
				blockAt[h] = true
			}
		}
	}
	cur := m.tree.Genesis
	for i := 0; i < n; i++ {
		raw := m.newHeader(cur.Hash, cur.Raw.Timestamp, 0x1d00ffff)
		if blockAt[i+1] {
			txids := m.genTxids(t)
			raw.Merkle = model.MerkleRoot(txids)
			m.blocks = append(m.blocks, &block{raw: raw, txids: txids, status: "submitted"})
		}
		if err := inst.repo.ProcessHeader(vt.Ctx(), toWire(&raw)); err != nil {
			t.Fatalf("base header %d: %s", i+1, err)
		}
		node := m.tree.AddChild(raw)
		inst.acc[node], inst.held[node] = true, true
		inst.mainTip = node
		cur = node
		if node.Height%10000 == 0 {
			m.autoCleaned(inst) // ProcessHeader cleans automatically every 10000 heights
		}
		if node.Height == staleAt {
			for _, st := range stales {
				p := model.AncestorAt(node, st.fork)
				for j := 0; j < st.length; j++ {
					sraw := m.newHeader(p.Hash, p.Raw.Timestamp, 0x1d00ffff)
					if err := inst.repo.ProcessHeader(vt.Ctx(), toWire(&sraw)); err != nil {
						t.Fatalf("stale fork header (fork %d, #%d): %s", st.fork, j, err)
					}
					p = m.tree.AddChild(sraw)
					inst.acc[p], inst.held[p] = true, true
				}
			}
		}
	}
	m.base = len(m.tree.ByHash) - 1
	m.afterStepFull(true)
}

// autoCleaned applies the model effects of the automatic clean inside ProcessHeader.
func (m *M) autoCleaned(inst *Inst) {
	inst.mainTip = m.reported(inst)
	tip := inst.mainTip
	base := model.AncestorAt(tip, max(0, tip.Height-10000))
	if base.Height > inst.floor {
		inst.floor = base.Height
	}
	for n := range inst.held {
		if !model.IsAncestorOrEqual(base, n) {
			delete(inst.held, n)
		}
	}
	m.k.Class("automatic_clean_at_10000_multiple")
}

func (m *M) newInst(name string, store *memstore.Store) *Inst {
	cfg := &headers.Config{Network: bitcoin.MainNet, MaxBranchDepth: m.mbd}
	for _, h := range m.cfgInvalid {
		cfg.InvalidHeaderHashes = append(cfg.InvalidHeaderHashes, bitcoin.Hash32(h))
	}
	repo := headers.NewRepository(cfg, store)
	repo.DisableDifficulty()
	return &Inst{name: name, repo: repo, store: store, acc: model.Set{}, held: model.Set{},
		invalid: map[model.Hash]bool{}, excluded: model.Set{}, forgot: model.Set{}, cfgAmbiguous: map[model.Hash]bool{}}
}

func (m *M) load(inst *Inst) error {
	if m.f.RealDepth {
		return inst.repo.Load(vt.Ctx())
	}
	return inst.repo.VerifLoad(vt.Ctx(), m.depth)
}

func (m *M) clean(inst *Inst) error {
	if m.f.RealDepth {
		return inst.repo.Clean(vt.Ctx())
	}
	return inst.repo.VerifClean(vt.Ctx(), m.depth)
}

func (m *M) effDepth() int {
	if m.f.RealDepth {
		return 10000
	}
	return m.depth
}

func (m *M) fail(inst *Inst, format string, args ...interface{}) {
	msg := fmt.Sprintf(format, args...)
	m.t.Fatalf("[%s inst %s] %s\n--- history ---\n%s\n--- branches ---\n%s", m.f.ID, inst.name, msg,
		strings.Join(m.k.Ops(), "\n"), inst.repo.VerifDump())
}

// ---------------------------------------------------------------------------------------------
// model helpers

func (m *M) label(h model.Hash) string {
	if n, ok := m.tree.ByHash[h]; ok {
		return fmt.Sprintf("%s@%d", n.Label, n.Height)
	}
	return "?" + h.String()[:8]
}

// reported returns the model node of the tip the instance reports.
func (m *M) reported(inst *Inst) *model.Node {
	last := model.Hash(inst.repo.LastHash())
	n := m.tree.ByHash[last]
	if n == nil {
		m.fail(inst, "reported tip %s is not a header that was ever submitted", last)
	}
	// The "forgot" set (side branches a Load need not restore) is a lower bound of what is dropped:
	// an instance that reports such a header on its best chain evidently restored it.
	for a := n; a != nil && inst.forgot[a]; a = a.Parent {
		delete(inst.forgot, a)
		inst.acc[a], inst.held[a] = true, true
	}
	// ... also below headers that were kept (a kept header whose parent was dropped, extended
	// until its chain is the best one again)
	if len(inst.forgot) > 0 && inst.lastReported != n {
		for f := range inst.forgot {
			if model.IsAncestorOrEqual(f, n) {
				delete(inst.forgot, f)
				inst.acc[f] = true
			}
		}
	}
	inst.lastReported = n
	return n
}

func (m *M) newHeader(parent model.Hash, ts uint32, bits uint32) model.RawHeader {
	m.ctr++
	var mr model.Hash
	mr[0], mr[1], mr[2], mr[3] = byte(m.ctr), byte(m.ctr>>8), byte(m.ctr>>16), 0xC7
	return model.RawHeader{Version: 1, Prev: parent, Merkle: mr, Timestamp: ts + 600, Bits: bits, Nonce: m.ctr}
}

// acceptedChildren returns the children of p this instance accepted.
func acceptedChildren(inst *Inst, p *model.Node) []*model.Node {
	var r []*model.Node
	for _, c := range p.Children {
		if inst.acc[c] {
			r = append(r, c)
		}
	}
	return r
}

// ---------------------------------------------------------------------------------------------
// submission with verdict oracle

// expected returns the set of allowed verdicts for submitting raw to inst, whether a nil answer
// must add the header (mustAdd), must leave the state alone (mustNotChange), and whether the case
// is in the don't-care band.
func (m *M) expected(inst *Inst, raw *model.RawHeader) (allowed map[Verdict]bool, newNode bool, dontCare bool) {
	allowed = map[Verdict]bool{}
	parent := m.tree.ByHash[raw.Prev]
	if parent == nil || (!inst.acc[parent] && !inst.forgot[parent]) {
		allowed[VUnknown] = true
		return allowed, false, false
	}
	if !inst.held[parent] {
		dontCare = true
		allowed[VUnknown] = true
		if parent == m.tree.Genesis {
			// a header after genesis whose parent is no longer in memory is answered as a peer
			// replying from genesis (no locator hash matched): wrong chain
			allowed[VWrongChain] = true
		}
	}
	n := m.tree.ByHash[raw.Hash()]
	if n != nil && inst.acc[n] {
		allowed[VOK] = true // already known: success, no change
		if inst.held[n] {
			return allowed, false, dontCare
		}
		// accepted earlier but outside the memory obligation (dropped side branch): the
		// instance may treat it as a header it sees for the first time
		dontCare = true
	}
	if n != nil && inst.forgot[n] {
		// dropped by a Load according to the model's lower bound; the instance may still hold it
		// (already known: success, no change) or treat it as a header it sees for the first time
		allowed[VOK] = true
		dontCare = true
	}
	applicable := 0
	if inst.invalid[raw.Hash()] {
		allowed[VInvalid] = true
		applicable++
	} else if inst.cfgAmbiguous[raw.Hash()] {
		allowed[VInvalid] = true // configured hash, unmarked and re-accepted before a Load: see loadedCopy
	}
	best := m.reported(inst)
	// A child that a Load dropped from the model's obligation set may still be known to the
	// instance (the set is a lower bound): whether the submission starts a new fork is then open.
	forgottenKids := false
	for _, c := range parent.Children {
		if inst.forgot[c] && c.Hash != raw.Hash() {
			forgottenKids = true
		}
	}
	if len(acceptedChildren(inst, parent)) > 0 || dontCare || forgottenKids { // starts a new fork
		if best.Height-parent.Height > m.mbd {
			allowed[VDepth] = true
			if !dontCare && len(acceptedChildren(inst, parent)) > 0 {
				applicable++
			}
		}
	}
	if applicable == 0 {
		allowed[VOK] = true
		newNode = true
	} else if len(inst.excluded) > 0 && !inst.invalid[raw.Hash()] {
		// After a mark removed accepted headers, whether attaching at the point where the chain
		// was cut counts as a new fork for the depth rule depends on what the trim left behind
		// (the cut point is again the last header of its branch). Neither C17 ("unmarking makes
		// the header acceptable again") nor C08 (no marks in its domain) settles it: both
		// answers are allowed.
		allowed[VOK] = true
		dontCare = true
	}
	return allowed, newNode, dontCare
}

// submit offers one header to every instance and applies the oracles selected by the focus.
func (m *M) submit(raw model.RawHeader, what string) {
	hash := raw.Hash()
	var verdicts []Verdict
	var cared []bool
	for _, inst := range m.insts {
		allowed, mustAdd, dontCare := m.expected(inst, &raw)
		prevTip := m.reported(inst)
		var before string
		snap := m.f.RefusalSnap && !(mustAdd && len(allowed) == 1) // a refusal is possible
		if snap {
			before = m.snapshot(inst, true)
		}
		parent := m.tree.ByHash[raw.Prev]
		wasAcc, wasHeld := false, false
		if n := m.tree.ByHash[hash]; n != nil {
			wasAcc, wasHeld = inst.acc[n], inst.held[n]
		}
		var err error
		var pn interface{}
		if m.f.Stream && m.f.RealDepth && len(inst.subs) > 0 {
			// A reorganisation across the retained depth announces more headers than the
			// subscriber channels buffer (10000) while the repository lock is held: like any real
			// subscriber, the harness keeps receiving while the submission is in progress.
			done := make(chan struct{})
			go func() {
				defer close(done)
				pn = vt.Catch(func() { err = inst.repo.ProcessHeader(vt.Ctx(), toWire(&raw)) })
			}()
			m.drainWhile(inst, done)
		} else {
			pn = vt.Catch(func() { err = inst.repo.ProcessHeader(vt.Ctx(), toWire(&raw)) })
		}
		if pn != nil {
			m.fail(inst, "ProcessHeader(%s) panicked: %v", what, pn)
		}
		v := classify(err)
		verdicts = append(verdicts, v)
		cared = append(cared, !dontCare)
		if m.f.Verdicts && !allowed[v] {
			lca := -1
			if parent != nil {
				lca = model.LCA(parent, prevTip).Height
			}
			pinfo := ""
			if parent != nil {
				pinfo = fmt.Sprintf("; parent accepted=%v held=%v forgot=%v accepted children=%d of %d", inst.acc[parent], inst.held[parent], inst.forgot[parent], len(acceptedChildren(inst, parent)), len(parent.Children))
			}
			m.fail(inst, "ProcessHeader(%s) answered %s (%v); reference allows %v (dontCare=%v; attach point forks from the best chain at height %d, tip height %d, prune depth %d, MaxBranchDepth %d%s)", what, v, err, keys(allowed), dontCare, lca, prevTip.Height, m.effDepth(), m.mbd, pinfo)
		}
		if v != VOK {
			m.refusalClasses[v]++
		}
		if inst == m.insts[0] && parent != nil && inst.acc[parent] && !wasAcc && len(acceptedChildren(inst, parent)) > 0 {
			d := prevTip.Height - parent.Height
			if v == VOK && d == m.mbd {
				m.atDepthAccept++
				m.k.Class("new_fork_exactly_at_max_depth_accepted")
			}
			if v == VDepth && d == m.mbd+1 {
				m.beyondDepthRefuse++
				m.k.Class("new_fork_one_beyond_max_depth_refused")
			}
		}
		// state update: the model follows the instance's accept decisions
		if err == nil && !wasAcc {
			if parent == nil {
				m.fail(inst, "ProcessHeader(%s) accepted a header whose parent was never submitted", what)
			}
			n := m.tree.AddChild(raw)
			inst.acc[n], inst.held[n] = true, true
			if inst.excluded[n] && inst == m.insts[0] {
				m.reaccepted++
			}
			extension := len(acceptedChildren(inst, parent)) == 1 // n is the only accepted child
			if parent == inst.mainTip {
				inst.mainTip = n
			}
			if m.f.RealDepth && extension && n.Height%10000 == 0 && m.reported(inst) == n {
				m.autoCleaned(inst)
			}
			for a := parent; a != nil && !inst.acc[a]; a = a.Parent {
				inst.acc[a] = true // evidently known to the instance (don't-care band)
				delete(inst.forgot, a)
			}
			delete(inst.forgot, n)
			m.noteAccept(inst, n, prevTip)
		} else if err != nil && !wasAcc && parent != nil {
			// "A submission that returns an error never leaves a strictly heavier accepted chain
			// unreported": a header retained in spite of the error counts as accepted.
			if x := m.tree.ByHash[hash]; inst.repo.HashHeight(bitcoin.Hash32(hash)) != -1 && !(x != nil && (inst.excluded[x] || inst.forgot[x])) {
				if m.f.RefusalSnap || m.f.Verdicts {
					m.fail(inst, "ProcessHeader(%s) returned %s (%v) but retained the header", what, v, err)
				}
				n := m.tree.AddChild(raw)
				inst.acc[n], inst.held[n] = true, true
				m.k.Class("retained_on_error")
			}
		}
		if err == nil && wasAcc && !wasHeld {
			inst.held[m.tree.ByHash[hash]] = true // forgotten header taken in again (don't-care band)
		} else if snap && (err != nil || wasAcc) {
			after := m.snapshot(inst, true)
			if before != after {
				m.fail(inst, "non-accepting answer %s to %s changed the observable state:\n%s", v, what, diff(before, after))
			}
		}
	}
	if len(m.insts) == 2 && verdicts[0] != verdicts[1] {
		// "treats every subsequent submission that attaches within the fork-depth limit exactly
		// as the original would": only demanded while the attach point is inside both
		// instances' memory obligation; otherwise the twins legitimately part ways.
		if cared[0] && cared[1] {
			m.fail(m.insts[1], "loaded repository answered %s to %s, the original answered %s", verdicts[1], what, verdicts[0])
		}
		m.k.Class("twin_diverged_in_dont_care_band")
		m.insts = m.insts[:1]
	}
	m.afterStep()
}

func keys(a map[Verdict]bool) []string {
	var r []string
	for v := range a {
		r = append(r, v.String())
	}
	sort.Strings(r)
	return r
}

func diff(a, b string) string {
	al, bl := strings.Split(a, "\n"), strings.Split(b, "\n")
	var sb strings.Builder
	for i := 0; i < len(al) || i < len(bl); i++ {
		var x, y string
		if i < len(al) {
			x = al[i]
		}
		if i < len(bl) {
			y = bl[i]
		}
		if x != y {
			fmt.Fprintf(&sb, "  before: %s\n  after : %s\n", x, y)
		}
	}
	return sb.String()
}

func (m *M) noteAccept(inst *Inst, n *model.Node, prevTip *model.Node) {
	if inst != m.insts[0] {
		return
	}
	newTip := m.reported(inst)
	if newTip != prevTip && !model.IsAncestorOrEqual(prevTip, newTip) {
		m.reorgs++
		lca := model.LCA(prevTip, newTip)
		// sibling/cousin: neither side is simply the chain the other forked from at its own tip
		if lca != prevTip && lca != newTip && len(acceptedChildren(inst, lca)) >= 2 {
			m.siblingReorgs++
		}
		if m.maintSinceReorg && m.reorgs >= 2 {
			m.maintBetweenReorgs++
		}
		m.maintSinceReorg = false
		if newTip.Height < prevTip.Height {
			m.heavierShorter++
		}
		if n.Parent != nil && len(acceptedChildren(inst, n.Parent)) >= 2 && newTip == n {
			m.firstHeaderReorgs++
		}
		if m.sideBornBeforeClean[model.AncestorAt(newTip, lca.Height+1)] {
			m.postCleanOvertake++
		}
	}
}

// ---------------------------------------------------------------------------------------------
// oracles after every step

func (m *M) afterStep() { m.afterStepFull(false) }

func (m *M) afterStepFull(full bool) {
	for _, inst := range m.insts {
		m.checkTip(inst)
		m.checkChain(inst, full)
		if m.f.Lookups {
			m.checkLookups(inst, full)
		}
		if m.f.Stream {
			m.checkStream(inst)
		}
		if m.f.Locators {
			m.checkLocator(inst)
		}
		if m.f.Marks {
			m.checkMarks(inst)
		}
	}
	if m.f.Twin && len(m.insts) == 2 {
		a, b := m.reported(m.insts[0]), m.reported(m.insts[1])
		if a.Work.Cmp(b.Work) != 0 {
			m.fail(m.insts[1], "loaded twin reports tip %s (work %s), original %s (work %s)", b.Label, b.Work, a.Label, a.Work)
		}
	}
}

// checkTip is the C01 oracle: the reported tip is a maximal-work accepted header and the reported
// height and accumulated work are that header's.
func (m *M) checkTip(inst *Inst) {
	tip := m.reported(inst)
	if !inst.acc[tip] {
		m.fail(inst, "reported tip %s was never accepted", tip.Label)
	}
	_, bw := model.BestTips(inst.acc, inst.invalid)
	if bw != nil && tip.Work.Cmp(bw) != 0 {
		tips, _ := model.BestTips(inst.acc, inst.invalid)
		m.fail(inst, "reported tip %s@%d has work %s but accepted header %s@%d has more work %s", tip.Label, tip.Height,
			tip.Work.Text(16), tips[0].Label, tips[0].Height, bw.Text(16))
	}
	if model.UnderInvalid(tip, inst.invalid) {
		m.fail(inst, "reported tip %s is at or above a header marked invalid", tip.Label)
	}
	if h := inst.repo.Height(); h != tip.Height {
		m.fail(inst, "Height()=%d but reported tip %s has height %d", h, tip.Label, tip.Height)
	}
	if w := inst.repo.AccumulatedWork(); w.Cmp(tip.Work) != 0 {
		m.fail(inst, "AccumulatedWork()=%s but tip %s has cumulative work %s", w.Text(16), tip.Label, tip.Work.Text(16))
	}
}

// checkChain: the header/hash reported for every height is the tip's ancestry. Heights that may
// be served from storage cost a file parse per call, so after ordinary steps they are checked
// through one range read plus sampled single-height reads; after maintenance operations and at the
// end of the history every height is read individually (full=true).
func (m *M) checkChain(inst *Inst, full bool) {
	tip := m.reported(inst)
	chain := model.Chain(tip)
	ctx := vt.Ctx()
	if m.f.RealDepth {
		m.checkChainReal(inst, tip, chain, full)
		return
	}
	all, err := inst.repo.GetHeaders(ctx, 0, tip.Height+1)
	if err != nil {
		m.fail(inst, "GetHeaders(0,%d) failed: %s", tip.Height+1, err)
	}
	if len(all) != len(chain) {
		m.fail(inst, "GetHeaders(0,%d) returned %d headers, tip height is %d", tip.Height+1, len(all), tip.Height)
	}
	for h, hdr := range all {
		if fromWire(hdr).Hash() != chain[h].Hash {
			m.fail(inst, "GetHeaders(0,..)[%d] hashes to %s, but ancestor of tip %s at that height is %s", h, m.label(fromWire(hdr).Hash()), tip.Label, chain[h].Label)
		}
	}
	for h := range chain {
		if !full && h > 0 && h < tip.Height-m.effDepth()-2 && h != int(m.ctr*7)%(tip.Height+1) && h != int(m.ctr*13)%(tip.Height+1) {
			continue
		}
		m.checkHeight(inst, tip, chain, h)
	}
	if _, err := inst.repo.Hash(ctx, tip.Height+1); err == nil {
		m.fail(inst, "Hash(tip+1) succeeded")
	}
}

func (m *M) checkHeight(inst *Inst, tip *model.Node, chain []*model.Node, h int) {
	ctx := vt.Ctx()
	n := chain[h]
	hash, err := inst.repo.Hash(ctx, h)
	if err != nil {
		m.fail(inst, "Hash(%d) failed: %s (tip %s@%d)", h, err, tip.Label, tip.Height)
	}
	if model.Hash(*hash) != n.Hash {
		m.fail(inst, "Hash(%d) = %s, but ancestor of tip %s at that height is %s", h, m.label(model.Hash(*hash)), tip.Label, n.Label)
	}
	hdr, err := inst.repo.Header(ctx, h)
	if err != nil {
		m.fail(inst, "Header(%d) failed: %s", h, err)
	}
	if fromWire(hdr).Hash() != n.Hash {
		m.fail(inst, "Header(%d) hashes to %s, want %s", h, m.label(fromWire(hdr).Hash()), n.Label)
	}
	if h > 0 && model.Hash(hdr.PrevBlock) != chain[h-1].Hash {
		m.fail(inst, "Header(%d).PrevBlock is not the hash reported at height %d", h, h-1)
	}
}

// sampleHeights are the heights read individually in the real-depth regime: the recent window,
// file boundaries, the prune boundary, the auto-clean heights and a few pseudo-random ones
// (Hash(h) below the prune height re-parses a 1000-header file per call).
func (m *M) sampleHeights(inst *Inst, tipHeight int, full bool) []int {
	set := map[int]bool{}
	add := func(h int) {
		if h >= 0 && h <= tipHeight {
			set[h] = true
		}
	}
	for h := tipHeight - 160; h <= tipHeight; h++ {
		add(h)
	}
	for _, b := range []int{0, 1, 999, 1000, 1001, 9999, 10000, 10001, 19999, 20000, 20001, m.base - 1, m.base, m.base + 1} {
		add(b)
	}
	for d := -2; d <= 2; d++ {
		add(inst.floor + d)
		add(tipHeight - 10000 + d)
		add((inst.floor/1000)*1000 + d)
	}
	n := 3
	if full {
		n = 12
	}
	for i := 0; i < n; i++ {
		add(int(uint32(m.ctr*2654435761+uint32(i)*40503) % uint32(tipHeight+1)))
	}
	r := make([]int, 0, len(set))
	for h := range set {
		r = append(r, h)
	}
	sort.Ints(r)
	return r
}

func (m *M) checkChainReal(inst *Inst, tip *model.Node, chain []*model.Node, full bool) {
	ctx := vt.Ctx()
	// Legs whose property is not about the chain by height (stream, verdicts, marks, proofs,
	// locators) read storage-served heights only after maintenance steps and at the end: every
	// such read parses and hashes a 1000-header file.
	light := !full && !m.finalCheck && m.f.ID != "C01" && m.f.ID != "C09" && m.f.ID != "C10" && m.f.ID != "C11" && m.f.ID != "C12"
	if light {
		for h := max(0, tip.Height-40); h <= tip.Height; h++ {
			m.checkHeight(inst, tip, chain, h)
		}
		m.checkHeight(inst, tip, chain, int(uint32(m.ctr*2654435761)%uint32(tip.Height+1)))
		return
	}
	for _, h := range m.sampleHeights(inst, tip.Height, full) {
		m.checkHeight(inst, tip, chain, h)
	}
	if _, err := inst.repo.Hash(ctx, tip.Height+1); err == nil {
		m.fail(inst, "Hash(tip+1) succeeded")
	}
	ranges := [][2]int{{tip.Height - 5, 12}, {max(0, inst.floor-3), 7}}
	if full {
		ranges = append(ranges, [2]int{997, 6}, [2]int{max(0, inst.floor-1003), 1010}, [2]int{max(0, tip.Height-2100), 2200})
	}
	if m.finalCheck {
		ranges = append(ranges, [2]int{0, tip.Height + 10})
	}
	for _, q := range ranges {
		start, cnt := q[0], q[1]
		if start < 0 || start > tip.Height {
			continue
		}
		hs, err := inst.repo.GetHeaders(ctx, start, cnt)
		if err != nil {
			m.fail(inst, "GetHeaders(%d,%d) failed: %s", start, cnt, err)
		}
		if want := min(cnt, tip.Height-start+1); len(hs) != want {
			m.fail(inst, "GetHeaders(%d,%d) returned %d headers, want %d (tip %d)", start, cnt, len(hs), want, tip.Height)
		}
		for i, h := range hs {
			if fromWire(h).Hash() != chain[start+i].Hash {
				m.fail(inst, "GetHeaders(%d,%d)[%d] is %s, best chain has %s", start, cnt, i, m.label(fromWire(h).Hash()), chain[start+i].Label)
			}
		}
	}
}

// checkLookups is the C09 oracle.
func (m *M) checkLookups(inst *Inst, full bool) {
	ctx := vt.Ctx()
	tip := m.reported(inst)
	nodes := make([]*model.Node, 0, len(m.tree.ByHash))
	for _, n := range m.tree.ByHash {
		nodes = append(nodes, n)
	}
	sort.Slice(nodes, func(i, j int) bool { return nodes[i].Seq < nodes[j].Seq })
	if m.f.RealDepth {
		// every generated header plus the base-chain headers at the sampled heights
		sampled := map[int]bool{}
		for _, h := range m.sampleHeights(inst, tip.Height, full) {
			if h < tip.Height-40 {
				sampled[h] = true
			}
		}
		var sel []*model.Node
		for _, n := range nodes {
			if (n.Seq > m.base && !m.bulk[n]) || sampled[n.Height] {
				sel = append(sel, n)
			}
		}
		nodes = sel
	}
	for _, n := range nodes {
		if !m.f.RealDepth && !full && n.Height > 0 && n.Height < tip.Height-m.effDepth()-2 && model.IsAncestorOrEqual(n, tip) &&
			n.Height != int(m.ctr*7)%(tip.Height+1) && n.Height != int(m.ctr*13)%(tip.Height+1) {
			continue // best-chain history served from storage: sampled between maintenance steps
		}
		h32 := bitcoin.Hash32(n.Hash)
		hh := inst.repo.HashHeight(h32)
		ch, flag, cerr := inst.repo.CheckHeader(ctx, h32)
		hdr, gh, gflag, gerr := inst.repo.GetHeader(ctx, h32)
		ph, pheight := inst.repo.PreviousHash(h32)
		onBest := model.IsAncestorOrEqual(n, tip)
		if inst.forgot[n] || (inst.excluded[n] && !inst.acc[n]) {
			// dropped by a Load, or removed by an invalid mark (C17's subject): either forgotten
			// or remembered with its true height, never reported as in the most-work chain
			if (hh != -1 && hh != n.Height) || (cerr == nil && (ch != n.Height || flag)) || (gerr == nil && (gflag || fromWire(hdr).Hash() != n.Hash)) {
				m.fail(inst, "header %s dropped by Load or removed by a mark: HashHeight=%d CheckHeader=(%d,%v,%v) GetHeader flag=%v err=%v", n.Label, hh, ch, flag, cerr, gflag, gerr)
			}
			continue
		}
		if !inst.acc[n] {
			if hh != -1 || cerr == nil || gerr == nil || ph != nil {
				m.fail(inst, "never-accepted header %s is reported known: HashHeight=%d CheckHeader err=%v GetHeader err=%v PreviousHash=%v", n.Label, hh, cerr, gerr, ph)
			}
			continue
		}
		mayForget := !inst.held[n] && !onBest // dropped side branches may be forgotten entirely
		if hh != n.Height && !(mayForget && hh == -1) {
			m.fail(inst, "HashHeight(%s) = %d, true height %d (held=%v onBest=%v)", n.Label, hh, n.Height, inst.held[n], onBest)
		}
		if cerr != nil {
			if !(mayForget && errors.Cause(cerr) == headers.ErrUnknownHeader) {
				m.fail(inst, "CheckHeader(%s) failed: %s (held=%v onBest=%v)", n.Label, cerr, inst.held[n], onBest)
			}
		} else {
			if ch != n.Height {
				m.fail(inst, "CheckHeader(%s) height %d, true height %d", n.Label, ch, n.Height)
			}
			if flag != onBest {
				m.fail(inst, "CheckHeader(%s@%d) in-most-work-chain flag = %v, but ancestor-or-equal of reported tip %s@%d is %v (held=%v)", n.Label, n.Height, flag, tip.Label, tip.Height, onBest, inst.held[n])
			}
		}
		if gerr != nil {
			// "while it is retrievable": headers outside the obligation set that are not on the
			// best chain may be unavailable
			if !mayForget {
				m.fail(inst, "GetHeader(%s) failed: %s (held=%v onBest=%v)", n.Label, gerr, inst.held[n], onBest)
			}
		} else {
			if fromWire(hdr).Hash() != n.Hash {
				m.fail(inst, "GetHeader(%s) returned a header hashing to %s", n.Label, m.label(fromWire(hdr).Hash()))
			}
			if gh != n.Height {
				m.fail(inst, "GetHeader(%s) height %d, true height %d", n.Label, gh, n.Height)
			}
			if gflag != onBest {
				m.fail(inst, "GetHeader(%s) in-most-work-chain flag = %v, want %v", n.Label, gflag, onBest)
			}
		}
		if ph != nil {
			if n.Parent == nil || model.Hash(*ph) != n.Parent.Hash || pheight != n.Height-1 {
				m.fail(inst, "PreviousHash(%s) = (%s,%d), true predecessor %v", n.Label, m.label(model.Hash(*ph)), pheight, n.Parent)
			}
		} else if n.Parent != nil && inst.held[n] && inst.held[n.Parent] {
			m.fail(inst, "PreviousHash(%s) does not answer although the header and its parent are held", n.Label)
		}
		if !onBest && inst.held[n] && m.cleans > 0 {
			m.sideLookupAfterClean++
		}
	}
	// unknown hash
	var unk bitcoin.Hash32
	unk[0], unk[5], unk[31] = 0xEE, byte(m.ctr), 0x77
	if inst.repo.HashHeight(unk) != -1 {
		m.fail(inst, "HashHeight(unknown) != -1")
	}
	if _, _, err := inst.repo.CheckHeader(ctx, unk); errors.Cause(err) != headers.ErrUnknownHeader {
		m.fail(inst, "CheckHeader(unknown) = %v", err)
	}
	// ranges
	chain := model.Chain(tip)
	lookupRanges := [][2]int{{0, tip.Height + 5}, {tip.Height / 2, 3}, {tip.Height, 2}, {max(0, tip.Height-m.depth-1), 4}, {1, 1}}
	if m.f.RealDepth {
		lookupRanges = lookupRanges[1:]
	}
	for _, q := range lookupRanges {
		start, cnt := q[0], q[1]
		if start > tip.Height {
			continue
		}
		hs, err := inst.repo.GetHeaders(ctx, start, cnt)
		if err != nil {
			m.fail(inst, "GetHeaders(%d,%d) failed: %s", start, cnt, err)
		}
		want := min(cnt, tip.Height-start+1)
		if len(hs) != want {
			m.fail(inst, "GetHeaders(%d,%d) returned %d headers, want %d (tip %d)", start, cnt, len(hs), want, tip.Height)
		}
		for i, h := range hs {
			if fromWire(h).Hash() != chain[start+i].Hash {
				m.fail(inst, "GetHeaders(%d,%d)[%d] is %s, best chain has %s", start, cnt, i, m.label(fromWire(h).Hash()), chain[start+i].Label)
			}
		}
	}
}

func max(a, b int) int {
	if a > b {
		return a
	}
	return b
}
func min(a, b int) int {
	if a < b {
		return a
	}
	return b
}

// checkStream is the C07 oracle: drain every subscriber and compare its reconstruction.
func (m *M) checkStream(inst *Inst) {
	tip := m.reported(inst)
	chain := model.Chain(tip)
	for si, s := range inst.subs {
	drain:
		for {
			var h *wire.BlockHeader
			if len(s.pending) > 0 {
				h, s.pending = s.pending[0], s.pending[1:]
			} else {
				select {
				case x, ok := <-s.ch:
					if !ok {
						break drain
					}
					h = x
				default:
					break drain
				}
			}
			{
				raw := fromWire(h)
				hash := raw.Hash()
				// attach to previous-block hash, discarding what was above it
				at := -1
				for i := len(s.chain) - 1; i >= 0; i-- {
					if s.chain[i] == raw.Prev {
						at = i
						break
					}
				}
				if at == -1 {
					m.fail(inst, "subscriber %d received %s whose previous block %s it does not hold", si, m.label(hash), m.label(raw.Prev))
				}
				if at+1 < len(s.chain) && s.chain[at+1] == hash {
					// "one header when the best chain is extended": a header that is already part
					// of the subscriber's chain is announced again only after it left the best chain
					m.fail(inst, "subscriber %d was sent %s although it already holds it on its chain (announced twice)", si, m.label(hash))
				}
				s.chain = append(s.chain[:at+1], hash)
				if n := m.tree.ByHash[hash]; n == nil || !model.IsAncestorOrEqual(n, tip) {
					m.fail(inst, "subscriber %d was sent %s which is not on the best chain (tip %s)", si, m.label(hash), tip.Label)
				}
			}
		}
		if len(s.chain) != len(chain) {
			m.fail(inst, "subscriber %d reconstructs a chain of height %d, repository reports %d (tip %s)", si, len(s.chain)-1, tip.Height, tip.Label)
		}
		for h := range chain {
			if s.chain[h] != chain[h].Hash {
				m.fail(inst, "subscriber %d has %s at height %d, repository reports %s", si, m.label(s.chain[h]), h, chain[h].Label)
			}
		}
	}
}

// drainWhile moves announced headers from the subscriber channels into their pending lists until
// done is closed (order per subscriber is preserved; what is still buffered afterwards is read by
// checkStream).
func (m *M) drainWhile(inst *Inst, done <-chan struct{}) {
	for {
		select {
		case <-done:
			return
		default:
		}
		got := false
		for _, s := range inst.subs {
			select {
			case h, ok := <-s.ch:
				if ok {
					s.pending = append(s.pending, h)
					got = true
				}
			default:
			}
		}
		if !got {
			time.Sleep(20 * time.Microsecond)
		}
	}
}

func (m *M) subscribe(inst *Inst) {
	ch := inst.repo.GetNewHeadersAvailableChannel()
	tip := m.reported(inst)
	s := &Sub{ch: ch}
	for _, n := range model.Chain(tip) {
		s.chain = append(s.chain, n.Hash)
	}
	inst.subs = append(inst.subs, s)
	m.subsCount++
}

// snapshot renders every observable of an instance (optionally including the bytes a Save would
// write, produced on a store snapshot that is restored afterwards).
func (m *M) snapshot(inst *Inst, withSave bool) string {
	ctx := vt.Ctx()
	var sb strings.Builder
	tipHash := inst.repo.LastHash()
	height := inst.repo.Height()
	fmt.Fprintf(&sb, "tip %s height %d work %s time %d\n", m.label(model.Hash(tipHash)), height,
		inst.repo.AccumulatedWork().Text(16), inst.repo.LastTime())
	// the chain by height: one range read (storage files are parsed once) plus single-height
	// reads for the in-memory window and a few sampled deep heights
	all, err := inst.repo.GetHeaders(ctx, 0, height+2)
	fmt.Fprintf(&sb, "range err=%v n=%d\n", err != nil, len(all))
	for h, hdr := range all {
		fmt.Fprintf(&sb, "range %d %s\n", h, m.label(fromWire(hdr).Hash()))
	}
	deep := func(h int) bool {
		return h > 0 && h < height-m.effDepth()-2 && h != int(m.ctr*7)%(height+1) && h != int(m.ctr*13)%(height+1)
	}
	for h := 0; h <= height+1; h++ {
		if deep(h) {
			continue
		}
		hash, err := inst.repo.Hash(ctx, h)
		if err != nil {
			fmt.Fprintf(&sb, "hash %d err\n", h)
		} else {
			fmt.Fprintf(&sb, "hash %d %s\n", h, m.label(model.Hash(*hash)))
		}
	}
	nodes := make([]*model.Node, 0, len(m.tree.ByHash))
	for _, n := range m.tree.ByHash {
		nodes = append(nodes, n)
	}
	sort.Slice(nodes, func(i, j int) bool { return nodes[i].Seq < nodes[j].Seq })
	tipNode := m.tree.ByHash[model.Hash(tipHash)]
	for _, n := range nodes {
		h32 := bitcoin.Hash32(n.Hash)
		if tipNode != nil && deep(n.Height) && model.IsAncestorOrEqual(n, tipNode) {
			fmt.Fprintf(&sb, "node %s hh=%d (deep best-chain header: storage lookups sampled)\n", n.Label, inst.repo.HashHeight(h32))
			continue
		}
		ch, flag, cerr := inst.repo.CheckHeader(ctx, h32)
		_, _, _, gerr := inst.repo.GetHeader(ctx, h32)
		ph, pheight := inst.repo.PreviousHash(h32)
		pl := "-"
		if ph != nil {
			pl = m.label(model.Hash(*ph))
		}
		fmt.Fprintf(&sb, "node %s hh=%d check=(%d,%v,%v) get=%v prev=(%s,%d)\n", n.Label, inst.repo.HashHeight(h32), ch, flag, cerr != nil, gerr != nil, pl, pheight)
	}
	loc, err := inst.repo.GetLocatorHashes(ctx, 50)
	fmt.Fprintf(&sb, "locator err=%v", err != nil)
	for _, h := range loc {
		fmt.Fprintf(&sb, " %s", m.label(model.Hash(h)))
	}
	sb.WriteString("\n")
	if withSave {
		snap := inst.store.Snapshot()
		if err := inst.repo.Save(ctx); err != nil {
			fmt.Fprintf(&sb, "save err %s\n", err)
		} else {
			img := model.DoubleSHA([]byte(memstore.Image(inst.store.Snapshot())))
			fmt.Fprintf(&sb, "save image %x keys %v\n", img[:8], inst.store.Keys())
		}
		inst.store.Restore(snap)
	}
	return sb.String()
}

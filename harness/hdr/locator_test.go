package hdr

import (
	"verifharness/internal/model"
	"verifharness/internal/vt"
)

// checkLocator is the structural half of the C19 oracle (small heights: no split entries apply).
func (m *M) checkLocator(inst *Inst) {
	tip := m.reported(inst)
	for _, mx := range []int{1, 2, 3, 10, 50} {
		loc, err := inst.repo.GetLocatorHashes(vt.Ctx(), mx)
		if err != nil {
			m.fail(inst, "GetLocatorHashes(%d) failed: %s", mx, err)
		}
		raw := make([][32]byte, len(loc))
		for i, h := range loc {
			raw[i] = h
		}
		m.checkLocatorShape(inst, tip, raw, mx, nil)
	}
}

// checkLocatorShape: every hash is a best-chain header, a split fork point or a side-branch
// header; best-chain hashes newest first starting at the tip's parent; at most max of them; no
// hash twice.
func (m *M) checkLocatorShape(inst *Inst, tip *model.Node, loc [][32]byte, mx int, splitBefore map[model.Hash]bool) {
	seen := map[model.Hash]bool{}
	var best []*model.Node
	for i, h32 := range loc {
		h := model.Hash(h32)
		if seen[h] {
			m.fail(inst, "GetLocatorHashes(%d): hash %s appears twice (%v)", mx, m.label(h), m.labels(loc))
		}
		seen[h] = true
		if splitBefore[h] {
			continue
		}
		n := m.tree.ByHash[h]
		if n == nil || !inst.acc[n] {
			m.fail(inst, "GetLocatorHashes(%d)[%d] = %s is not a known header (%v)", mx, i, h, m.labels(loc))
		}
		if model.IsAncestorOrEqual(n, tip) {
			best = append(best, n)
		}
	}
	if tip.Height == 0 {
		if len(loc) != 1 || model.Hash(loc[0]) != tip.Hash {
			m.fail(inst, "GetLocatorHashes(%d) at height 0 must be genesis alone, got %v", mx, m.labels(loc))
		}
		return
	}
	if len(best) == 0 || best[0] != tip.Parent {
		m.fail(inst, "GetLocatorHashes(%d): best-chain hashes must begin with the tip's parent %s, got %v", mx, tip.Parent.Label, m.labels(loc))
	}
	for i := 1; i < len(best); i++ {
		if best[i].Height >= best[i-1].Height {
			m.fail(inst, "GetLocatorHashes(%d): best-chain hashes not newest first: %v", mx, m.labels(loc))
		}
	}
	// Entries that are (also) the base of a tracked side branch are not counted against max: the
	// implementation's genesis-rooted branch is a side branch while the best chain is not
	// consolidated, and its base is the lowest best-chain header in memory; a branch the best
	// chain passes through has its first header on the best chain.
	counted := 0
	for _, n := range best {
		isBase := n.Height <= inst.floor || (n.Parent != nil && len(acceptedChildren(inst, n.Parent)) >= 2)
		if !isBase {
			counted++
		}
	}
	if counted > mx {
		m.fail(inst, "GetLocatorHashes(%d) returned %d best-chain hashes that are not branch bases: %v", mx, counted, m.labels(loc))
	}
}

func (m *M) labels(loc [][32]byte) []string {
	r := make([]string, len(loc))
	for i, h := range loc {
		r[i] = m.label(model.Hash(h))
	}
	return r
}

package hdr

import (
	"testing"

	"verifharness/internal/evid"
	"verifharness/internal/model"
	"verifharness/internal/vt"

	"github.com/tokenized/bitcoin_reader/headers"
	"github.com/tokenized/pkg/bitcoin"
	"pgregory.net/rapid"
)

// checkLocator is the structural half of the C19 oracle (small heights: no split entries apply).
func (m *M) checkLocator(inst *Inst) {
	tip := m.reported(inst)
	for _, mx := range []int{1, 2, 3, 10, 50} {
		loc, err := inst.repo.GetLocatorHashes(vt.Ctx(), mx)
		if err != nil {
			m.fail(inst, "GetLocatorHashes(%d) failed: %s", mx, err)
		}
		raw := make([][32]byte, len(loc))
		for i, h := range loc {
			raw[i] = h
		}
		m.checkLocatorShape(inst, tip, raw, mx, nil)
	}
}

// checkLocatorShape: every hash is a best-chain header, a split fork point or a side-branch
// header; best-chain hashes newest first starting at the tip's parent; at most max of them; no
// hash twice.
func (m *M) checkLocatorShape(inst *Inst, tip *model.Node, loc [][32]byte, mx int, splitBefore map[model.Hash]bool) {
	seen := map[model.Hash]bool{}
	var best []*model.Node
	for i, h32 := range loc {
		h := model.Hash(h32)
		if seen[h] {
			m.fail(inst, "GetLocatorHashes(%d): hash %s appears twice (%v)", mx, m.label(h), m.labels(loc))
		}
		seen[h] = true
		if splitBefore[h] {
			continue
		}
		n := m.tree.ByHash[h]
		if n == nil || !(inst.acc[n] || inst.forgot[n]) { // the instance may hold more than it is obliged to
			m.fail(inst, "GetLocatorHashes(%d)[%d] = %s is not a known header (%v)", mx, i, h, m.labels(loc))
		}
		if model.IsAncestorOrEqual(n, tip) {
			best = append(best, n)
		}
	}
	if tip.Height == 0 {
		if len(loc) != 1 || model.Hash(loc[0]) != tip.Hash {
			m.fail(inst, "GetLocatorHashes(%d) at height 0 must be genesis alone, got %v", mx, m.labels(loc))
		}
		return
	}
	if len(best) == 0 || best[0] != tip.Parent {
		m.fail(inst, "GetLocatorHashes(%d): best-chain hashes must begin with the tip's parent %s, got %v", mx, tip.Parent.Label, m.labels(loc))
	}
	for i := 1; i < len(best); i++ {
		if best[i].Height >= best[i-1].Height {
			m.fail(inst, "GetLocatorHashes(%d): best-chain hashes not newest first: %v", mx, m.labels(loc))
		}
	}
	// Entries that are (also) the base of a tracked side branch are not counted against max: the
	// implementation's genesis-rooted branch is a side branch while the best chain is not
	// consolidated, and its base is the lowest best-chain header in memory; a branch the best
	// chain passes through has its first header on the best chain.
	counted := 0
	for _, n := range best {
		// (siblings that a Load dropped from the model's obligation set may still be tracked by
		// the instance: the set is a lower bound, so they count as siblings here)
		siblings := 0
		if n.Parent != nil {
			for _, c := range n.Parent.Children {
				if inst.acc[c] || inst.forgot[c] {
					siblings++
				}
			}
		}
		isBase := n.Height <= inst.floor || siblings >= 2
		if !isBase {
			counted++
		}
	}
	if counted > mx {
		m.fail(inst, "GetLocatorHashes(%d) returned %d best-chain hashes that are not branch bases: %v", mx, counted, m.labels(loc))
	}
}

func (m *M) labels(loc [][32]byte) []string {
	r := make([]string, len(loc))
	for i, h := range loc {
		r[i] = m.label(model.Hash(h))
	}
	return r
}

// opPeerSync simulates a protocol-conformant peer: its best chain is the chain of a drawn accepted
// header plus 0..4 headers we have not seen; it answers our locator with the headers that follow the
// first locator hash found on ITS best chain. The first returned header must connect to a header
// we hold, and a peer that is on our best chain must reply starting with our tip.
func (m *M) opPeerSync(t *rapid.T) {
	inst := m.insts[0]
	p := m.pools()
	var peerTip *model.Node
	switch rapid.IntRange(0, 3).Draw(t, "peerOn") {
	case 0:
		peerTip = p.tip
	case 1:
		if len(p.sideTips) > 0 {
			peerTip = rapid.SampledFrom(p.sideTips).Draw(t, "peerSide")
		} else {
			peerTip = p.tip
		}
	case 2: // behind us on our chain
		peerTip = p.bestChain[rapid.IntRange(0, p.tip.Height).Draw(t, "behind")]
	case 3:
		peerTip = rapid.SampledFrom(p.all).Draw(t, "peerAny")
	}
	if !inst.held[peerTip] {
		t.Skip("peer tip is outside the memory obligation")
	}
	ext := rapid.IntRange(0, 4).Draw(t, "peerAhead")
	mx := rapid.SampledFrom([]int{1, 3, 10, 10}).Draw(t, "max")
	peerChain := model.Chain(peerTip)
	onPeer := map[model.Hash]int{}
	for h, n := range peerChain {
		onPeer[n.Hash] = h
	}
	var extRaws []model.RawHeader
	cur := peerTip
	for i := 0; i < ext; i++ {
		if m.reorgTooDeep(cur, 0x1d00ffff) {
			break
		}
		raw := m.newHeader(cur.Hash, cur.Raw.Timestamp, 0x1d00ffff)
		extRaws = append(extRaws, raw)
		cur = m.tree.AddChild(raw)
	}
	loc, err := inst.repo.GetLocatorHashes(vt.Ctx(), mx)
	if err != nil {
		m.fail(inst, "GetLocatorHashes(%d): %s", mx, err)
	}
	matched := -1
	for _, h := range loc {
		if hh, ok := onPeer[model.Hash(h)]; ok {
			matched = hh
			break
		}
	}
	m.k.Op("peersync peerOnBest=%v ahead=%d max=%d matched=%v", model.IsAncestorOrEqual(peerTip, p.tip) || model.IsAncestorOrEqual(p.tip, peerTip), len(extRaws), mx, matched >= 0)
	if matched < 0 {
		return // no shared locator hash: nothing is promised
	}
	// the reply: everything after the matched header on the peer's chain
	var reply []model.RawHeader
	for h := matched + 1; h < len(peerChain); h++ {
		reply = append(reply, peerChain[h].Raw)
	}
	reply = append(reply, extRaws...)
	if len(reply) == 0 {
		return
	}
	// a peer on our best chain at or beyond our tip answers starting with our tip
	if tipH, ok := onPeer[p.tip.Hash]; ok && p.tip.Height >= 1 && tipH == p.tip.Height {
		if reply[0].Hash() != p.tip.Hash {
			m.fail(inst, "peer on our best chain (its tip %s@%d, ahead by %d) answers locator %v starting with %s instead of our tip %s", peerTip.Label, peerTip.Height, len(extRaws), m.labels32(loc), m.label(reply[0].Hash()), p.tip.Label)
		}
	}
	m.peerSyncs++
	for i, raw := range reply {
		if i == 0 {
			verr := inst.repo.ProcessHeader(vt.Ctx(), toWire(&raw))
			if v := classify(verr); v == VUnknown || v == VWrongChain {
				m.fail(inst, "first header of a conformant peer's reply (after shared locator hash at height %d) does not connect: %s (%v); locator %v", matched, v, verr, m.labels32(loc))
			}
		}
		m.submit(raw, "peer reply")
	}
}

func (m *M) labels32(loc []bitcoin.Hash32) []string {
	r := make([]string, len(loc))
	for i, h := range loc {
		r[i] = m.label(model.Hash(h))
	}
	return r
}

const ruleC19splits = "the verify-only locator of the configuration is exactly the distinct split fork points, newest first, each once; a straight chain of 20..140 (one case in four: 640..700) headers (optionally with 1..4 side branches, so that locators of more than 12 entries occur) on which two synthetic foreign splits and the required split are installed at drawn heights with their before-hashes ON our chain (as on mainnet; verif hook VerifSetSplits), then the chain is extended one header at a time up to 500 more; at every tip and for max in {1,2,3,4,5,10,20,50}: every locator hash is a best-chain header, a split fork point or the base of a side branch; no hash appears twice; best-chain hashes newest first beginning with the tip's parent; at most max of them besides split fork points and branch bases; non-trivial = tip above both splits (back-off steps cross the split heights); distinct = (split heights, side branches, span)"

func TestProp_C19_splits(t *testing.T) {
	col := evid.For("C19", "splits", ruleC19splits)
	rapid.Check(t, func(t *rapid.T) {
		k := col.NewCase()
		ctx := vt.Ctx()
		base := rapid.IntRange(20, 140).Draw(t, "base")
		if rapid.IntRange(0, 3).Draw(t, "longBase") == 0 {
			// long enough for 8 back-off hashes at the split heights: with two fork points and three or
			// four side-branch bases the locator has more than 12 entries (the repository's sort by
			// height is only stable up to 12)
			base = rapid.IntRange(640, 700).Draw(t, "base")
		}
		more := rapid.IntRange(10, 500).Draw(t, "more")
		s1 := rapid.IntRange(2, base-2).Draw(t, "split1")
		s2 := rapid.IntRange(s1+1, base).Draw(t, "split2")
		// pre-compute the chain so that the split hashes are known before submission
		raws := []model.RawHeader{mainGenesis}
		for i := 1; i <= base+more; i++ {
			prev := raws[i-1]
			raw := model.RawHeader{Version: 1, Prev: prev.Hash(), Timestamp: prev.Timestamp + 600, Bits: 0x1d00ffff, Nonce: uint32(i)}
			raw.Merkle[0], raw.Merkle[1], raw.Merkle[2] = byte(i), byte(i>>8), 0x19
			raws = append(raws, raw)
		}
		var fake1, fake2 bitcoin.Hash32
		fake1[0], fake2[0] = 0xF1, 0xF2
		splits := headers.Splits{
			{Name: "F2", BeforeHash: bitcoin.Hash32(raws[s2-1].Hash()), AfterHash: fake2, Height: s2},
			{Name: "F1", BeforeHash: bitcoin.Hash32(raws[s1-1].Hash()), AfterHash: fake1, Height: s1},
		}
		required := &headers.Split{Name: "OURS", BeforeHash: bitcoin.Hash32(raws[s2-1].Hash()), AfterHash: bitcoin.Hash32(raws[s2].Hash()), Height: s2}
		repo := headers.NewRepository(&headers.Config{Network: bitcoin.MainNet, MaxBranchDepth: 144}, memstoreNew())
		repo.DisableDifficulty()
		repo.InitializeWithGenesis()
		repo.VerifSetSplits(splits, required)
		// verify-only locator of this network configuration: exactly the distinct split fork
		// points (the required split shares its fork point with a listed split, as on mainnet),
		// newest first, each once
		vo, err := repo.GetVerifyOnlyLocatorHashes(ctx)
		if err != nil {
			t.Fatalf("GetVerifyOnlyLocatorHashes: %s", err)
		}
		if len(vo) != 2 || model.Hash(vo[0]) != raws[s2-1].Hash() || model.Hash(vo[1]) != raws[s1-1].Hash() {
			t.Fatalf("verify-only locator %v, want the fork points at heights %d and %d once each, newest first", vo, s2-1, s1-1)
		}
		splitBefore := map[model.Hash]bool{raws[s1-1].Hash(): true, raws[s2-1].Hash(): true}
		height := map[model.Hash]int{}
		for i, r := range raws {
			height[r.Hash()] = i
		}
		sideBase := map[model.Hash]bool{}
		nSide := rapid.IntRange(0, 4).Draw(t, "sides")
		var sideAt []int
		for i := 1; i <= base+more; i++ {
			if err := repo.ProcessHeader(ctx, toWire(&raws[i])); err != nil {
				t.Fatalf("chain header %d: %s", i, err)
			}
			if i == base {
				for s := 0; s < nSide; s++ {
					f := rapid.IntRange(max(1, base-100), base-1).Draw(t, "sideFork")
					if f+1 == s1 || f+1 == s2 {
						continue // a header at a split height other than ours is refused as wrong chain
					}
					side := model.RawHeader{Version: 1, Prev: raws[f].Hash(), Timestamp: raws[f].Timestamp + 601, Bits: 0x1d00ffff, Nonce: uint32(9000 + s)}
					if err := repo.ProcessHeader(ctx, toWire(&side)); err != nil {
						t.Fatalf("side header at %d: %s", f+1, err)
					}
					sideBase[side.Hash()] = true
					sideAt = append(sideAt, f+1)
				}
			}
			if i < base {
				continue
			}
			for _, mx := range []int{1, 2, 3, 4, 5, 10, 20, 50} {
				loc, err := repo.GetLocatorHashes(ctx, mx)
				if err != nil {
					t.Fatalf("GetLocatorHashes: %s", err)
				}
				seen := map[model.Hash]bool{}
				counted, last, first := 0, 1<<30, true
				for _, h32 := range loc {
					h := model.Hash(h32)
					if seen[h] {
						t.Fatalf("tip %d max %d: locator hash at height %d appears twice (splits at %d and %d): %v", i, mx, height[h], s1, s2, heightsOf(loc, height))
					}
					seen[h] = true
					if sideBase[h] {
						continue
					}
					hh, ok := height[h]
					if !ok || hh > i {
						t.Fatalf("tip %d max %d: locator hash %s is not a best-chain header, split fork point or side-branch base", i, mx, h)
					}
					if first && !splitBefore[h] {
						if hh != i-1 {
							t.Fatalf("tip %d max %d: best-chain hashes begin at height %d, not at the tip's parent: %v", i, mx, hh, heightsOf(loc, height))
						}
					}
					if !splitBefore[h] || first {
						first = false
					}
					if hh >= last {
						t.Fatalf("tip %d max %d: best-chain hashes not newest first: %v", i, mx, heightsOf(loc, height))
					}
					last = hh
					if !splitBefore[h] {
						counted++
					}
				}
				if counted > mx {
					t.Fatalf("tip %d max %d: %d best-chain hashes besides split fork points: %v", i, mx, counted, heightsOf(loc, height))
				}
			}
		}
		k.Op("base=%d more=%d splits=%d,%d sides=%v", base/10, more/25, s1, s2, sideAt)
		k.NonTrivial = true
		k.Done()
	})
}

func heightsOf(loc []bitcoin.Hash32, height map[model.Hash]int) []int {
	r := make([]int, len(loc))
	for i, h := range loc {
		if hh, ok := height[model.Hash(h)]; ok {
			r[i] = hh
		} else {
			r[i] = -1
		}
	}
	return r
}

package hdr

import (
	"testing"

	"verifharness/internal/evid"

	"pgregory.net/rapid"
)

// runHistory runs one generated history with the given focus.
func runHistory(t *rapid.T, col *evid.Collector, f Focus, weights map[string]int, nt func(m *M) bool) {
	k := col.NewCase()
	m := newMachine(t, k, f)
	all := map[string]func(*rapid.T){
		"extend":         m.opExtend,
		"dup":            m.opDup,
		"orphan":         m.opOrphan,
		"late":           m.opLate,
		"clean":          m.opClean,
		"save":           m.opSave,
		"reload":         m.opReload,
		"twin":           m.opTwin,
		"subscribe":      m.opSubscribe,
		"mark":           m.opMark,
		"unmark":         m.opUnmark,
		"resubmitMarked": m.opResubmitMarked,
		"block":          m.opBlock,
		"prove":          m.opProve,
		"peersync":       m.opPeerSync,
		"staleOvertake":  m.opStaleOvertake,
		"bulk":           m.opBulk,
		"align":          m.opAlign,
	}
	m.actionsEnabled = weights
	// rapid's Repeat picks actions uniformly; weights are realised by aliasing an action under
	// several names.
	actions := map[string]func(*rapid.T){}
	for name, w := range weights {
		for i := 0; i < w; i++ {
			actions[name+string(rune('a'+i))] = all[name]
		}
	}
	t.Repeat(actions)
	m.finalCheck = true
	m.afterStepFull(true)
	if nt(m) {
		k.NonTrivial = true
	}
	m.classes()
	k.Done()
}

func (m *M) classes() {
	flag := func(name string, n int) {
		if n > 0 {
			m.k.Class(name)
		}
	}
	flag("reorg", m.reorgs)
	flag("reorg>=2", m.reorgs/2)
	flag("sibling_or_cousin_reorg", m.siblingReorgs)
	flag("maintenance_between_reorgs", m.maintBetweenReorgs)
	flag("heavier_but_shorter_takeover", m.heavierShorter)
	flag("reorg_on_first_header_of_branch", m.firstHeaderReorgs)
	flag("clean", m.cleans)
	flag("clean_with>=3_branches", m.cleansMultiBranch)
	flag("post_clean_overtake_by_pre_clean_side_branch", m.postCleanOvertake)
	flag("save", m.saves)
	flag("load", m.loads)
	flag("side_branch_alive_at_save", m.sideAtSave)
	for v, n := range m.refusalClasses {
		flag("refusal:"+v.String(), n)
	}
}

const ruleC01 = "rapid state machine: header trees by construction (parent from labelled pools: tip / side tip / best-chain ancestor around MaxBranchDepth / interior / fork point / refused; run 1..6; bits ladder with 1.5x..65536x work so heavier-but-shorter chains exist), duplicates, orphans, out-of-order runs with retry, Clean/Save/Save+Load(restart) anywhere (hook prune depth 3..12, MaxBranchDepth 0..144 capped at the prune depth); oracle after EVERY step: reported tip is an accepted header of maximal cumulative work (reference block tree with own work arithmetic), Height/AccumulatedWork are that header's, Hash(h)/Header(h) for every h in 0..tip equal the tip's ancestry and are linked; non-trivial = a sibling/cousin reorg, or >=2 reorgs, or a maintenance operation between two reorgs, or a heavier-but-shorter takeover; distinct = hash of the abstract operation list"

var weightsC01 = map[string]int{"extend": 8, "dup": 1, "orphan": 1, "late": 2, "clean": 2, "save": 1, "reload": 2}

func ntC01(m *M) bool {
	return m.siblingReorgs > 0 || m.reorgs >= 2 || m.maintBetweenReorgs > 0 || m.heavierShorter > 0
}

func TestProp_C01_history(t *testing.T) {
	col := evid.For("C01", "history", ruleC01)
	rapid.Check(t, func(t *rapid.T) {
		runHistory(t, col, Focus{ID: "C01"}, weightsC01, ntC01)
	})
}

const genDesc = "rapid state machine over header trees built by construction (see C01 rule: labelled parent pools, runs, work ladder, duplicates, orphans, out-of-order runs, Clean/Save/Save+Load anywhere, hook prune depth 3..12, MaxBranchDepth 0..144 capped at prune depth)"

// ---- C07 -------------------------------------------------------------------------------------

const ruleC07 = genDesc + " plus 0..3 subscribers registered at drawn steps; oracle after EVERY ProcessHeader: each subscriber's channel is drained, each received header must attach to a header the subscriber holds and be on the reported best chain, and the subscriber's reconstruction must equal the repository's reported chain at every height; non-trivial = (a sibling/cousin reorg, or a reorg on the first header of a new branch, or >=2 subscribers) with at least one subscriber and one reorg; distinct = hash of the abstract operation list"

var weightsC07 = map[string]int{"extend": 8, "dup": 1, "orphan": 1, "late": 2, "clean": 1, "subscribe": 2}

func TestProp_C07_stream(t *testing.T) {
	col := evid.For("C07", "stream", ruleC07)
	rapid.Check(t, func(t *rapid.T) {
		runHistory(t, col, Focus{ID: "C07", Stream: true}, weightsC07, func(m *M) bool {
			return m.subsCount > 0 && m.reorgs > 0 && (m.siblingReorgs > 0 || m.firstHeaderReorgs > 0 || m.subsCount >= 2)
		})
	})
}

// ---- C08 -------------------------------------------------------------------------------------

const ruleC08 = genDesc + " with the adversarial pools weighted up (child of a best-chain header exactly at / one beyond MaxBranchDepth, child of a deep side-branch tip, orphan, duplicate of any known header); oracle: the answer's class (errors.Cause) must be in the reference verdict set computed from the model (accepted / already known / unknown parent / beyond max depth; parents outside the memory obligation are a declared don't-care between unknown-parent and the rule verdict), and around EVERY non-accepting answer a full observable snapshot (tip, every height, every lookup of every submitted header, locator, and the bytes a Save would write, probed on a store snapshot that is restored) must be identical; non-trivial = refusals of >=2 classes, or an at-depth acceptance together with a beyond-depth refusal; distinct = hash of the abstract operation list"

var weightsC08 = map[string]int{"extend": 8, "dup": 2, "orphan": 1, "late": 2, "clean": 1, "reload": 1}

func TestProp_C08_verdict(t *testing.T) {
	col := evid.For("C08", "verdict", ruleC08)
	rapid.Check(t, func(t *rapid.T) {
		runHistory(t, col, Focus{ID: "C08", Verdicts: true, RefusalSnap: true}, weightsC08, func(m *M) bool {
			return len(m.refusalClasses) >= 2 || (m.atDepthAccept > 0 && m.beyondDepthRefuse > 0)
		})
	})
}

// ---- C09 -------------------------------------------------------------------------------------

const ruleC09 = genDesc + "; oracle after EVERY step, for EVERY header ever submitted: HashHeight / CheckHeader / GetHeader / PreviousHash agree with the reference tree (true height, in-most-work-chain flag == ancestor-or-equal of the reported tip, returned header hashes to the requested hash, true predecessor; never-accepted and random hashes unknown; headers outside the memory obligation and off the best chain may be forgotten), and Hash/Header/GetHeaders ranges equal the model best chain whether served from memory or storage; non-trivial = a side-branch header looked up after a Clean, or best-chain heights served from storage (tip - prune depth > 0 after a Clean/Load), or a heavier-but-shorter takeover; distinct = hash of the abstract operation list"

var weightsC09 = map[string]int{"extend": 8, "dup": 1, "orphan": 1, "late": 1, "clean": 3, "save": 1, "reload": 2}

func TestProp_C09_lookups(t *testing.T) {
	col := evid.For("C09", "lookups", ruleC09)
	rapid.Check(t, func(t *rapid.T) {
		runHistory(t, col, Focus{ID: "C09", Lookups: true}, weightsC09, func(m *M) bool {
			served := (m.cleans > 0 || m.loads > 0) && m.insts[0].repo.Height() > m.depth
			if served {
				m.k.Class("best_chain_served_from_storage")
			}
			if m.sideLookupAfterClean > 0 {
				m.k.Class("side_branch_lookup_after_clean")
			}
			return m.sideLookupAfterClean > 0 || served || m.heavierShorter > 0
		})
	})
}

// C09 with invalid marks in the history: a mark is the only way a whole losing chain disappears
// within a session, so that the first header of a former side branch can be pruned from memory.
var weightsC09marks = map[string]int{"extend": 9, "dup": 1, "late": 1, "clean": 4, "reload": 1, "mark": 2, "unmark": 1}

func TestProp_C09_marks(t *testing.T) {
	col := evid.For("C09", "marks", genDesc+" plus MarkHeaderInvalid / MarkHeaderNotInvalid of held headers (best chain, side branch, first header of a branch, unseen); lookup oracle of the lookups leg on every header not removed by a mark (removed ones: forgotten or remembered with the true height, never in the most-work chain); non-trivial = a mark that removed a side chain followed by a Clean with best-chain history served from storage")
	rapid.Check(t, func(t *rapid.T) {
		runHistory(t, col, Focus{ID: "C09", Lookups: true, Marks: true}, weightsC09marks, func(m *M) bool {
			served := (m.cleans > 0 || m.loads > 0) && m.insts[0].repo.Height() > m.depth
			if m.marksSide > 0 {
				m.k.Class("mark_on_side_branch")
			}
			if m.marksOnBest > 0 {
				m.k.Class("mark_on_best_chain")
			}
			return (m.marksSide > 0 || m.marksOnBest > 0) && served
		})
	})
}

// ---- C10 -------------------------------------------------------------------------------------

const ruleC10 = genDesc + " with Clean weighted up (single and back-to-back, right after reorgs, with several side branches); oracle: a snapshot (tip triple, Hash(h) for every h, HashHeight and CheckHeader of every accepted header) taken immediately before and after EVERY Clean must be identical; afterwards the history continues under the C08 verdict oracle (side branches must still extend and overtake) and the C09 lookup oracle (pruned best-chain history still retrievable by height and hash); non-trivial = a Clean with >=3 live branches, or a post-Clean overtake by a side branch that existed before the Clean; distinct = hash of the abstract operation list"

var weightsC10 = map[string]int{"extend": 8, "dup": 1, "late": 1, "clean": 5}

func TestProp_C10_clean(t *testing.T) {
	col := evid.For("C10", "clean", ruleC10)
	rapid.Check(t, func(t *rapid.T) {
		runHistory(t, col, Focus{ID: "C10", CleanSnap: true, Verdicts: true, Lookups: true}, weightsC10, func(m *M) bool {
			return m.cleansMultiBranch > 0 || m.postCleanOvertake > 0
		})
	})
}

// ---- C11 -------------------------------------------------------------------------------------

const ruleC11 = genDesc + " where at drawn steps the repository is saved and a twin is loaded from a copy of the storage; from then on original and twin receive every operation (generations repeat: the twin itself is saved and re-loaded); oracle: both agree with the reference model after every step (tip, every height, lookups of every header in the obligation set, verdict classes of every later submission) and with each other (tip work); non-trivial = a side branch alive at Save and a later reorg, or a second-generation Save after a prune; distinct = hash of the abstract operation list"

var weightsC11 = map[string]int{"extend": 8, "dup": 1, "late": 1, "clean": 2, "twin": 3, "reload": 1}

func TestProp_C11_saveload(t *testing.T) {
	col := evid.For("C11", "saveload", ruleC11)
	rapid.Check(t, func(t *rapid.T) {
		runHistory(t, col, Focus{ID: "C11", Twin: true, Verdicts: true, Lookups: true}, weightsC11, func(m *M) bool {
			return (m.sideAtSave > 0 && m.reorgs > 0) || (m.loads >= 2 && m.cleans > 0)
		})
	})
}

// ---- C12 -------------------------------------------------------------------------------------

const ruleC12 = genDesc + " on a journaling store; for EVERY Clean and EVERY Save in the history the journal slice of its Write/Remove calls is taken and EVERY prefix (0..n, exhaustive per operation) is materialised as a crash image on the pre-operation snapshot; oracle per image: Load returns nil without panic, the loaded tip is an accepted header, Hash(h) for every h is that tip's ancestry from genesis, and the tip's cumulative work >= work of the tip at the last completed Save (genesis if none); non-trivial = an image strictly inside an operation (0<k<n) in a history with a reorg or a side branch; distinct = hash of the abstract operation list"

var weightsC12 = map[string]int{"extend": 8, "late": 1, "clean": 3, "save": 3, "reload": 1}

func TestProp_C12_crash(t *testing.T) {
	col := evid.For("C12", "crash", ruleC12)
	rapid.Check(t, func(t *rapid.T) {
		runHistory(t, col, Focus{ID: "C12", Crash: true}, weightsC12, func(m *M) bool {
			col.Count("crash_images", m.crashCount)
			col.Count("crash_images_inside_operation", m.crashMidCount)
			return m.crashMidCount > 0 && (m.reorgs > 0 || len(m.pools().sideTips) > 0)
		})
	})
}

// ---- C19 (structural half) --------------------------------------------------------------------

const ruleC19 = genDesc + "; oracle after EVERY step for max in {1,2,3,10,50}: every locator hash is an accepted header (best chain or side branch), best-chain hashes come newest first beginning with the tip's parent (genesis alone at height 0), at most max of them, no hash twice; plus a simulated protocol-conformant peer (its best chain = the chain of a drawn held header plus 0..4 unseen headers) that answers the locator with the headers after the first locator hash on ITS chain: the first returned header must connect (never unknown-parent / after-genesis) and a peer on our best chain must answer starting with our tip; non-trivial = history with >=1 live side branch and a prune/load; distinct = hash of the abstract operation list"

var weightsC19 = map[string]int{"extend": 8, "late": 1, "clean": 2, "reload": 1, "peersync": 4}

func TestProp_C19_locator(t *testing.T) {
	col := evid.For("C19", "locator", ruleC19)
	rapid.Check(t, func(t *rapid.T) {
		runHistory(t, col, Focus{ID: "C19", Locators: true}, weightsC19, func(m *M) bool {
			if m.peerSyncs > 0 {
				m.k.Class("conformant_peer_reply_submitted")
			}
			return len(m.pools().sideTips) > 0 && (m.cleans > 0 || m.loads > 0)
		})
	})
}

// ---- real-depth legs ----------------------------------------------------------------------------

const deepDesc = "REAL prune depth: a straight base chain of 9990..20050 headers (lengths around the 10000 prune depth, the 1000-header file boundaries and the automatic clean at heights 10000/20000), then up to ~100 generated operations (including bulk growth of the best chain by 900..2600 headers, so that a Clean or Save starts in the middle of a header file and crosses file boundaries and a second prune follows the first, and alignment of the tip to a multiple of 1000 followed by Clean / Save / Load there) with the real Clean / Save / Load (no hooks, MaxBranchDepth 144/30/6), including Save of an UNCONSOLIDATED best chain (the production shutdown path); heights are read individually at the recent window, file boundaries, the prune boundary, the auto-clean heights and pseudo-random positions, ranges across those boundaries, and the whole chain once at the end; "

var weightsDeep = map[string]int{"extend": 8, "dup": 1, "late": 1, "clean": 2, "save": 2, "reload": 2, "bulk": 1, "align": 2}

func TestProp_C01_deep(t *testing.T) {
	col := evid.For("C01", "deep", deepDesc+"oracle and non-trivial rule as in the history leg")
	rapid.Check(t, func(t *rapid.T) {
		runHistory(t, col, Focus{ID: "C01", RealDepth: true}, weightsDeep, ntC01)
	})
}

// TestProp_C01_stale: the real-depth regime with 2..3 stale forks (created early in a drawn order,
// overlapping spans), the base length chosen so that the prune boundary of a Clean falls among
// their tips, then Cleans, small extensions and a stale fork overtaking the whole chain.
func TestProp_C01_stale(t *testing.T) {
	col := evid.For("C01", "stale", deepDesc+"with 2..3 STALE forks created early (drawn creation order, overlapping spans), the base length chosen so that the prune boundary of a Clean falls among their tips, and a stale fork later overtaking the whole chain (a reorganisation across the retained depth); oracle as in the history leg; non-trivial = a stale fork overtook after a Clean")
	w := map[string]int{"extend": 3, "clean": 4, "staleOvertake": 4, "reload": 1, "save": 1, "bulk": 1, "align": 2}
	rapid.Check(t, func(t *rapid.T) {
		runHistory(t, col, Focus{ID: "C01", RealDepth: true, StaleForks: true}, w, func(m *M) bool {
			return m.k.HasClass("stale_fork_overtakes") && m.cleans > 0
		})
	})
}

func TestProp_C09_deep(t *testing.T) {
	col := evid.For("C09", "deep", deepDesc+"lookup oracle of the lookups leg on every generated header and on the base-chain headers at the sampled heights; non-trivial = a reload or clean with the tip above the prune depth (best-chain history served from storage) and a side branch")
	rapid.Check(t, func(t *rapid.T) {
		runHistory(t, col, Focus{ID: "C09", RealDepth: true, Lookups: true}, weightsDeep, func(m *M) bool {
			return (m.cleans > 0 || m.loads > 0) && len(m.pools().sideTips) > 0
		})
	})
}

// C10 with invalid marks in the history (see TestProp_C09_marks): after a mark removed the losing
// chain, Clean prunes past the first header of the former side branch.
func TestProp_C10_marks(t *testing.T) {
	col := evid.For("C10", "marks", genDesc+" plus MarkHeaderInvalid / MarkHeaderNotInvalid of held headers; before/after snapshot equality around every Clean, verdict and lookup oracles afterwards (headers removed by a mark: forgotten or remembered with the true height, never in the most-work chain); non-trivial = a mark followed by a Clean with best-chain history served from storage")
	w := map[string]int{"extend": 9, "dup": 1, "late": 1, "clean": 5, "mark": 2, "unmark": 1}
	rapid.Check(t, func(t *rapid.T) {
		runHistory(t, col, Focus{ID: "C10", CleanSnap: true, Verdicts: true, Lookups: true, Marks: true}, w, func(m *M) bool {
			served := m.cleans > 0 && m.insts[0].repo.Height() > m.depth
			return (m.marksSide > 0 || m.marksOnBest > 0) && served
		})
	})
}

func TestProp_C10_deep(t *testing.T) {
	col := evid.For("C10", "deep", deepDesc+"before/after snapshot equality around every real Clean (and the automatic clean), verdict and lookup oracles afterwards; non-trivial = a Clean with a side branch alive")
	w := map[string]int{"extend": 8, "late": 1, "clean": 4, "dup": 1, "bulk": 1, "align": 2}
	rapid.Check(t, func(t *rapid.T) {
		runHistory(t, col, Focus{ID: "C10", RealDepth: true, CleanSnap: true, Verdicts: true, Lookups: true}, w, func(m *M) bool {
			return m.cleans > 0 && len(m.pools().sideTips) > 0
		})
	})
}

func TestProp_C11_deep(t *testing.T) {
	col := evid.For("C11", "deep", deepDesc+"Save (consolidated or not) + real Load twin in lock-step as in the saveload leg; non-trivial = a side branch alive at Save")
	w := map[string]int{"extend": 8, "late": 1, "clean": 1, "twin": 3, "reload": 1, "bulk": 1, "align": 2}
	rapid.Check(t, func(t *rapid.T) {
		runHistory(t, col, Focus{ID: "C11", RealDepth: true, Twin: true, Verdicts: true, Lookups: true}, w, func(m *M) bool {
			return m.sideAtSave > 0
		})
	})
}

func TestProp_C12_deep(t *testing.T) {
	col := evid.For("C12", "deep", deepDesc+"every prefix of the storage writes of every real Clean/Save is loaded with the real Load (sampled heights); non-trivial = an image strictly inside an operation")
	w := map[string]int{"extend": 8, "late": 1, "clean": 2, "save": 2, "bulk": 1, "align": 2}
	rapid.Check(t, func(t *rapid.T) {
		runHistory(t, col, Focus{ID: "C12", RealDepth: true, Crash: true}, w, func(m *M) bool {
			col.Count("crash_images", m.crashCount)
			return m.crashMidCount > 0
		})
	})
}

// ---- real-depth legs of the remaining history properties -----------------------------------------

func TestProp_C07_deep(t *testing.T) {
	col := evid.For("C07", "deep", deepDesc+"with 0..3 stale forks and subscribers registered at drawn steps: subscriber-side reconstruction as in the stream leg, including reorganisations to a stale fork across the retained depth (the announced headers start right above a fork point that is served from storage); non-trivial = a subscriber saw a reorganisation")
	w := map[string]int{"extend": 6, "clean": 1, "staleOvertake": 2, "reload": 1, "subscribe": 4, "dup": 1, "late": 1, "bulk": 1, "align": 4}
	rapid.Check(t, func(t *rapid.T) {
		runHistory(t, col, Focus{ID: "C07", RealDepth: true, Stream: true}, w, func(m *M) bool {
			return m.subsCount > 0 && m.reorgs > 0
		})
	})
}

func TestProp_C08_deep(t *testing.T) {
	col := evid.For("C08", "deep", deepDesc+"reference verdicts for every submission (orphans, duplicates on any branch, new forks at / one beyond MaxBranchDepth 144/30/6 below the best height) and the read-API snapshot around refusals; non-trivial = a depth refusal or an at-depth acceptance, and a Clean or Load")
	w := map[string]int{"extend": 8, "dup": 2, "orphan": 1, "late": 1, "clean": 2, "reload": 1, "bulk": 1, "align": 2}
	rapid.Check(t, func(t *rapid.T) {
		runHistory(t, col, Focus{ID: "C08", RealDepth: true, Verdicts: true}, w, func(m *M) bool {
			return (m.atDepthAccept > 0 || m.beyondDepthRefuse > 0 || m.refusalClasses[VDepth] > 0) && (m.cleans > 0 || m.loads > 0)
		})
	})
}

func TestProp_C17_deep(t *testing.T) {
	col := evid.For("C17", "deep", deepDesc+"with MarkHeaderInvalid / MarkHeaderNotInvalid / resubmission as in the marks leg (marks only on headers still held in memory: known finding C17-floor excluded by construction); non-trivial = a mark on the best chain and a Load or Clean")
	w := map[string]int{"extend": 8, "late": 1, "clean": 1, "reload": 2, "mark": 4, "unmark": 2, "resubmitMarked": 2, "bulk": 1, "align": 2}
	rapid.Check(t, func(t *rapid.T) {
		runHistory(t, col, Focus{ID: "C17", RealDepth: true, Marks: true, Verdicts: true}, w, func(m *M) bool {
			return m.marksOnBest > 0 && (m.cleans > 0 || m.loads > 0)
		})
	})
}

func TestProp_C19_deep(t *testing.T) {
	col := evid.For("C19", "deep", deepDesc+"locator oracle of the locator leg (max 1,2,3,10,50) with most of the back-off served from storage, and the simulated conformant peer; non-trivial = a side branch alive and a Clean or Load")
	w := map[string]int{"extend": 8, "late": 1, "clean": 2, "reload": 1, "peersync": 4, "bulk": 1, "align": 2}
	rapid.Check(t, func(t *rapid.T) {
		runHistory(t, col, Focus{ID: "C19", RealDepth: true, Locators: true}, w, func(m *M) bool {
			return len(m.pools().sideTips) > 0 && (m.cleans > 0 || m.loads > 0)
		})
	})
}

func TestProp_C18_deep(t *testing.T) {
	col := evid.For("C18", "deep", deepDesc+"blocks with known transactions on the base chain at heights 1, 2, the 1000-header file boundary, both sides of the prune boundary and near the tip, plus generated blocks on side branches; proofs (header / hash / both; valid or one element corrupted) as in the merkle leg, verified before and after real Clean / Save / Load; non-trivial = a corrupted proof and a proof for a block served from storage")
	w := map[string]int{"extend": 3, "late": 1, "clean": 2, "reload": 2, "block": 3, "prove": 10, "bulk": 1, "align": 2}
	rapid.Check(t, func(t *rapid.T) {
		runHistory(t, col, Focus{ID: "C18", RealDepth: true}, w, func(m *M) bool {
			col.Count("proofs", m.proofs)
			col.Count("corrupted_proofs", m.corruptProofs)
			if m.prunedProofs > 0 {
				m.k.Class("proof_for_pruned_history_block")
			}
			return m.corruptProofs > 0 && m.prunedProofs > 0
		})
	})
}

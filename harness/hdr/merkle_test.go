package hdr

import (
	"fmt"
	"testing"

	"verifharness/internal/evid"
	"verifharness/internal/model"
	"verifharness/internal/vt"

	"github.com/tokenized/pkg/bitcoin"
	"github.com/tokenized/pkg/merkle_proof"
	"pgregory.net/rapid"
)

type block struct {
	raw    model.RawHeader
	txids  []model.Hash
	status string // how it was offered
}

func (m *M) genTxids(t *rapid.T) []model.Hash {
	n := rapid.SampledFrom([]int{1, 1, 2, 3, 4, 5, 6, 7, 8, 9, 11, 13, 16, 17, 31, 32, 33}).Draw(t, "txCount")
	txids := make([]model.Hash, n)
	for i := range txids {
		m.ctr++
		txids[i] = model.DoubleSHA([]byte(fmt.Sprintf("tx-%d-%d", m.ctr, i)))
	}
	return txids
}

// opBlock creates a header whose merkle root commits to a generated set of txids and submits it
// (or, sometimes, withholds it so that the header stays unknown).
func (m *M) opBlock(t *rapid.T) {
	parent, pool := m.pickParent(t)
	if !m.insts[0].acc[parent] {
		t.Skip("parent not accepted")
	}
	bits := rapid.SampledFrom(bitsLadder).Draw(t, "bits")
	if m.reorgTooDeep(parent, bits) {
		t.Skip("precondition")
	}
	txids := m.genTxids(t)
	raw := m.newHeader(parent.Hash, parent.Raw.Timestamp, bits)
	raw.Merkle = model.MerkleRoot(txids)
	withhold := rapid.IntRange(0, 9).Draw(t, "withhold") == 0
	b := &block{raw: raw, txids: txids, status: "submitted"}
	m.k.Op("block from=%s txs=%d withheld=%v", pool, len(txids), withhold)
	if withhold {
		b.status = "withheld"
	} else {
		m.tree.AddChild(raw)
		m.submit(raw, "block header")
	}
	m.blocks = append(m.blocks, b)
}

// opProve verifies one valid proof and one single-element corruption of it for a drawn block.
func (m *M) opProve(t *rapid.T) {
	if len(m.blocks) == 0 {
		t.Skip("no blocks")
	}
	b := m.blocks[rapid.IntRange(0, len(m.blocks)-1).Draw(t, "block")]
	pos := rapid.IntRange(0, len(b.txids)-1).Draw(t, "pos")
	form := rapid.SampledFrom([]string{"header", "hash", "both", "both"}).Draw(t, "form")
	corrupt := rapid.SampledFrom([]string{"none", "none", "txid", "path", "index", "dup", "header", "hash", "swap"}).Draw(t, "corrupt")
	// optional MerkleRoot field of the proof: absent, the proof's OWN recomputed root (self
	// consistent even when an element was corrupted: a forged root), or the block's true root
	rootField := rapid.SampledFrom([]string{"none", "none", "none", "own", "own", "true"}).Draw(t, "rootField")
	for _, inst := range m.insts {
		m.prove(t, inst, b, pos, form, corrupt, rootField)
	}
}

// form: "header" = proof carries the block header, "hash" = only the block hash, "both" = header
// and hash (the form the block downloader emits); with both, the SUPPLIED HEADER is what must be
// known to the repository, whatever the hash field names.
func (m *M) prove(t *rapid.T, inst *Inst, b *block, pos int, form string, corrupt string, rootField string) {
	withHeader := form != "hash"
	path, dups := model.MerklePath(b.txids, pos)
	txid := b.txids[pos]
	index := pos
	raw := b.raw
	hash := raw.Hash()
	detail := ""
	switch corrupt {
	case "txid":
		txid[rapid.IntRange(0, 31).Draw(t, "byte")] ^= 1 << uint(rapid.IntRange(0, 7).Draw(t, "bit"))
	case "path":
		if len(path) == 0 {
			corrupt = "none"
			break
		}
		path = append([]model.Hash(nil), path...)
		i := rapid.IntRange(0, len(path)-1).Draw(t, "pathIdx")
		path[i][rapid.IntRange(0, 31).Draw(t, "byte")] ^= 0x10
	case "index":
		index = rapid.IntRange(0, 70).Draw(t, "newIndex")
		detail = fmt.Sprintf("%d->%d", pos, index)
	case "dup": // drop one duplicate marker or add one
		if len(dups) > 0 && rapid.Bool().Draw(t, "dropDup") {
			i := rapid.IntRange(0, len(dups)-1).Draw(t, "dupIdx")
			dups = append(append([]int(nil), dups[:i]...), dups[i+1:]...)
		} else {
			lvl := rapid.IntRange(1, 7).Draw(t, "dupLevel")
			nd := []int{}
			added := false
			for _, d := range dups {
				if !added && lvl < d {
					nd = append(nd, lvl)
					added = true
				}
				if d == lvl {
					added = true
				}
				nd = append(nd, d)
			}
			if !added {
				nd = append(nd, lvl)
			}
			dups = nd
		}
	case "header": // one header field
		switch rapid.IntRange(0, 5).Draw(t, "field") {
		case 0:
			raw.Version ^= 2
		case 1:
			raw.Prev[3] ^= 1
		case 2:
			raw.Merkle[7] ^= 1
		case 3:
			raw.Timestamp++
		case 4:
			raw.Bits ^= 1
		case 5:
			raw.Nonce++
		}
		hash = raw.Hash()
	case "hash":
		hash[rapid.IntRange(0, 31).Draw(t, "byte")] ^= 4
	case "swap": // two distinct path nodes swapped
		if len(path) < 2 {
			corrupt = "none"
			break
		}
		path = append([]model.Hash(nil), path...)
		path[0], path[1] = path[1], path[0]
	}

	// expected outcome, computed independently
	root, okRoot := model.RootFromPath(txid, index, path, dups)
	var known *model.Node
	var headerForRoot model.RawHeader
	if withHeader {
		// the supplied header is what is checked and looked up
		known = m.tree.ByHash[raw.Hash()]
		headerForRoot = raw
	} else {
		known = m.tree.ByHash[hash]
		if known != nil {
			headerForRoot = known.Raw
		}
	}
	tip := m.reported(inst)
	isKnown := known != nil && (inst.acc[known] || inst.forgot[known])
	retrievable := isKnown && inst.acc[known] && (inst.held[known] || model.IsAncestorOrEqual(known, tip))
	wantOK := isKnown && okRoot && root == headerForRoot.Merkle
	mayEither := isKnown && !retrievable // dropped side branch: may be forgotten
	var rootValue *bitcoin.Hash32
	switch rootField {
	case "own":
		if okRoot {
			r := bitcoin.Hash32(root)
			rootValue = &r
		}
	case "true":
		r := bitcoin.Hash32(b.raw.Merkle)
		rootValue = &r
		if !okRoot || root != b.raw.Merkle {
			wantOK = false // a root field that the path does not lead to
		}
	}

	proof := &merkle_proof.MerkleProof{Index: index, Path: make([]bitcoin.Hash32, len(path)), DuplicatedIndexes: dups}
	tx := bitcoin.Hash32(txid)
	proof.TxID = &tx
	for i, p := range path {
		proof.Path[i] = bitcoin.Hash32(p)
	}
	proof.MerkleRoot = rootValue
	if withHeader {
		proof.BlockHeader = toWire(&raw)
	}
	if form != "header" {
		h := bitcoin.Hash32(hash)
		if form == "both" && corrupt == "header" {
			h = bitcoin.Hash32(b.raw.Hash()) // altered header next to the hash of the real, known block
		}
		proof.BlockHash = &h
	}
	var height int
	var longest bool
	var err error
	if p := vt.Catch(func() { height, longest, err = inst.repo.VerifyMerkleProof(vt.Ctx(), proof) }); p != nil {
		m.fail(inst, "VerifyMerkleProof panicked: %v", p)
	}
	desc := fmt.Sprintf("block %s (%d txs, %s) pos %d form=%s corrupt=%s rootField=%s %s", m.label(b.raw.Hash()), len(b.txids), b.status, pos, form, corrupt, rootField, detail)
	m.k.Op("prove txs=%d pos=%d form=%s corrupt=%s root=%s known=%v want=%v", len(b.txids), pos, form, corrupt, rootField, isKnown, wantOK)
	if rootValue != nil && corrupt != "none" && rootField == "own" {
		m.k.Class("self_consistent_forged_root")
	}
	if form == "both" && corrupt == "header" {
		m.k.Class("altered_header_with_hash_of_known_block")
	}
	m.proofs++
	if corrupt != "none" {
		m.corruptProofs++
	}
	if err == nil {
		if !wantOK {
			m.fail(inst, "VerifyMerkleProof accepted %s: header known=%v, recomputed root matches=%v", desc, isKnown, okRoot && known != nil && root == headerForRoot.Merkle)
		}
		if height != known.Height {
			m.fail(inst, "VerifyMerkleProof(%s) height %d, true height %d", desc, height, known.Height)
		}
		if onBest := model.IsAncestorOrEqual(known, tip); longest != onBest {
			m.fail(inst, "VerifyMerkleProof(%s) in-most-work-chain = %v, want %v", desc, longest, onBest)
		}
		if !model.IsAncestorOrEqual(known, tip) {
			m.sideProofs++
		}
		if known.Height < tip.Height-m.effDepth() && (m.cleans > 0 || m.loads > 0) {
			m.prunedProofs++
		}
	} else if wantOK && !mayEither {
		m.fail(inst, "VerifyMerkleProof rejected a valid proof for %s: %s", desc, err)
	}
}

const ruleC18 = genDesc + " plus blocks: headers whose merkle root commits to 1..33 generated txids (odd/even widths at several levels) attached anywhere (best chain, side branches, later pruned or dropped, or withheld = never submitted); proofs built by an independent merkle implementation for a drawn position, given with the header, with the block hash only, or with both, optionally with a MerkleRoot field (the true root, or the proof's own recomputed root - a self-consistent forged proof when an element was corrupted) (the form the block downloader emits; an altered header next to the hash of the real block must fail), valid or with ONE corrupted element (txid bit, path node, index, duplicate marker dropped/added, one header field, block hash, two path nodes swapped); oracle: VerifyMerkleProof succeeds exactly when the independently recomputed root equals the merkle root of a header the model says is known (so an index change that leaves the path parity unchanged is not a failure), and then returns the model height and ancestor-of-tip flag; non-trivial = history with a corrupted proof and a proof for a side-branch or pruned-history block; distinct = hash of the abstract operation list"

var weightsC18 = map[string]int{"extend": 4, "late": 1, "clean": 2, "reload": 1, "block": 4, "prove": 8}

func TestProp_C18_merkle(t *testing.T) {
	col := evid.For("C18", "merkle", ruleC18)
	rapid.Check(t, func(t *rapid.T) {
		runHistory(t, col, Focus{ID: "C18"}, weightsC18, func(m *M) bool {
			col.Count("proofs", m.proofs)
			col.Count("corrupted_proofs", m.corruptProofs)
			if m.sideProofs > 0 {
				m.k.Class("proof_for_side_branch_block")
			}
			if m.prunedProofs > 0 {
				m.k.Class("proof_for_pruned_history_block")
			}
			return m.corruptProofs > 0 && (m.sideProofs > 0 || m.prunedProofs > 0)
		})
	})
}

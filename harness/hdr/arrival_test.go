package hdr

import (
	"fmt"
	"math/big"
	"sync"
	"testing"
	"time"

	"verifharness/internal/evid"
	"verifharness/internal/memstore"
	"verifharness/internal/model"
	"verifharness/internal/vt"

	"github.com/tokenized/bitcoin_reader/headers"
	"github.com/tokenized/pkg/bitcoin"
	"pgregory.net/rapid"
)

// genTree draws a header tree of up to n nodes by construction (parents biased towards tips so
// that chains grow, forks of forks and siblings occur) with varied work per header.
func genTree(t *rapid.T, n int) (*model.Tree, []*model.Node) {
	tree := model.NewTree(mainGenesis)
	nodes := []*model.Node{tree.Genesis}
	ctr := uint32(0)
	for len(nodes) <= n {
		var parent *model.Node
		switch rapid.IntRange(0, 5).Draw(t, "parentClass") {
		case 0, 1, 2:
			parent = nodes[len(nodes)-1] // continue the latest chain
		case 3:
			parent = nodes[rapid.IntRange(0, len(nodes)-1).Draw(t, "any")]
		default: // near the end: short forks
			parent = nodes[max(0, len(nodes)-1-rapid.IntRange(1, 6).Draw(t, "back"))]
		}
		bits := rapid.SampledFrom(bitsLadder).Draw(t, "bits")
		ctr++
		raw := model.RawHeader{Version: 1, Prev: parent.Hash, Timestamp: parent.Raw.Timestamp + 600, Bits: bits, Nonce: ctr}
		raw.Merkle[0], raw.Merkle[1] = byte(ctr), 0xA1
		nodes = append(nodes, tree.AddChild(raw))
	}
	return tree, nodes
}

func newPlainRepo() *headers.Repository {
	repo := headers.NewRepository(&headers.Config{Network: bitcoin.MainNet, MaxBranchDepth: 144}, memstore.New())
	repo.DisableDifficulty()
	repo.InitializeWithGenesis()
	return repo
}

// checkFinal: the reported chain is a maximal-work chain of the whole tree.
func checkFinal(t *rapid.T, repo *headers.Repository, tree *model.Tree, nodes []*model.Node, how string) {
	ctx := vt.Ctx()
	var best *big.Int
	for _, n := range nodes {
		if best == nil || n.Work.Cmp(best) > 0 {
			best = n.Work
		}
	}
	tip := tree.ByHash[model.Hash(repo.LastHash())]
	if tip == nil {
		t.Fatalf("%s: reported tip is not one of the submitted headers", how)
	}
	if tip.Work.Cmp(best) != 0 {
		t.Fatalf("%s: reported tip %s@%d has work %s, the heaviest submitted chain has %s", how, tip.Label, tip.Height, tip.Work.Text(16), best.Text(16))
	}
	if repo.Height() != tip.Height || repo.AccumulatedWork().Cmp(tip.Work) != 0 {
		t.Fatalf("%s: Height/AccumulatedWork %d/%s do not belong to the reported tip %s@%d", how, repo.Height(), repo.AccumulatedWork().Text(16), tip.Label, tip.Height)
	}
	for h, n := range model.Chain(tip) {
		hash, err := repo.Hash(ctx, h)
		if err != nil || model.Hash(*hash) != n.Hash {
			t.Fatalf("%s: Hash(%d) is not the tip's ancestor %s (%v)", how, h, n.Label, err)
		}
	}
	for _, n := range nodes {
		if repo.HashHeight(bitcoin.Hash32(n.Hash)) != n.Height {
			t.Fatalf("%s: header %s@%d not held after every header was accepted", how, n.Label, n.Height)
		}
	}
}

const rulePerm = "a header tree of 8..60 nodes drawn by construction (chains, forks of forks, siblings, work ladder) is submitted to a fresh repository in a drawn ARRIVAL PERMUTATION with orphan retry (a peer re-offers a header once its parent is known; passes repeat until every header is accepted), MaxBranchDepth 144 >= tree height so no order can hit the depth rule; metamorphic oracle: whatever the order, every header ends up held, and the reported tip has the maximal cumulative work of the tree with Height/AccumulatedWork/Hash(h) being its ancestry; non-trivial = an order in which at least one header arrived before its parent and the tree has >= 2 forks; distinct = (tree shape, order class)"

func TestProp_C01_permutation(t *testing.T) {
	col := evid.For("C01", "permutation", rulePerm)
	rapid.Check(t, func(t *rapid.T) {
		k := col.NewCase()
		ctx := vt.Ctx()
		tree, nodes := genTree(t, rapid.IntRange(8, 60).Draw(t, "size"))
		order := rapid.Permutation(intsTo(len(nodes)-1)).Draw(t, "order")
		repo := newPlainRepo()
		pending := make([]*model.Node, 0, len(order))
		for _, i := range order {
			pending = append(pending, nodes[i+1])
		}
		orphans := 0
		for pass := 0; len(pending) > 0; pass++ {
			if pass > len(nodes)+2 {
				t.Fatalf("headers never accepted although their parents are held: %d left", len(pending))
			}
			var next []*model.Node
			for _, n := range pending {
				err := repo.ProcessHeader(ctx, toWire(&n.Raw))
				switch classify(err) {
				case VOK:
				case VUnknown:
					if repo.HashHeight(bitcoin.Hash32(n.Parent.Hash)) != -1 && n.Parent != tree.Genesis {
						// parent known yet refused as unknown
						t.Fatalf("header %s refused as unknown although its parent %s is held", n.Label, n.Parent.Label)
					}
					orphans++
					next = append(next, n)
				default:
					t.Fatalf("header %s@%d answered %v in arrival order %v", n.Label, n.Height, err, order)
				}
			}
			pending = next
		}
		checkFinal(t, repo, tree, nodes, "arrival permutation")
		forks := 0
		for _, n := range nodes {
			if len(n.Children) >= 2 {
				forks++
			}
		}
		k.Op("size=%d forks=%d orphans=%v", len(nodes)/5, forks, orphans > 0)
		k.NonTrivial = orphans > 0 && forks >= 2
		k.Done()
	})
}

const ruleConcPeers = "the same kind of tree is fed by 2..6 barrier-started goroutines (concurrent peers), each holding a shuffled share of the headers (shares overlap: some headers are offered by several peers) and retrying headers whose parent is not known yet; oracle at quiescence: as in the permutation leg (every header held, reported tip of maximal work, consistent height/work/ancestry); non-trivial = >= 3 peers and >= 2 forks; distinct = (tree shape, peers)"

func TestProp_C01_concurrent(t *testing.T) {
	col := evid.For("C01", "concurrent", ruleConcPeers)
	rapid.Check(t, func(t *rapid.T) {
		k := col.NewCase()
		ctx := vt.Ctx()
		tree, nodes := genTree(t, rapid.IntRange(8, 50).Draw(t, "size"))
		peers := rapid.IntRange(2, 6).Draw(t, "peers")
		shares := make([][]*model.Node, peers)
		for _, n := range nodes[1:] {
			owners := rapid.SliceOfNDistinct(rapid.IntRange(0, peers-1), 1, 2, func(i int) int { return i }).Draw(t, "owners")
			for _, o := range owners {
				shares[o] = append(shares[o], n)
			}
		}
		for i := range shares {
			if len(shares[i]) > 1 {
				perm := rapid.Permutation(intsTo(len(shares[i]))).Draw(t, "shuffle")
				s := make([]*model.Node, len(perm))
				for a, b := range perm {
					s[a] = shares[i][b]
				}
				shares[i] = s
			}
		}
		repo := newPlainRepo()
		start := make(chan struct{})
		var wg sync.WaitGroup
		var mu sync.Mutex
		var failure string
		deadline := time.Now().Add(20 * time.Second)
		for i := range shares {
			wg.Add(1)
			go func(list []*model.Node) {
				defer wg.Done()
				<-start
				for len(list) > 0 {
					var next []*model.Node
					for _, n := range list {
						err := repo.ProcessHeader(ctx, toWire(&n.Raw))
						switch classify(err) {
						case VOK:
						case VUnknown:
							next = append(next, n)
						default:
							mu.Lock()
							failure = "header " + n.Label + " answered " + err.Error()
							mu.Unlock()
							return
						}
					}
					list = next
					if len(list) > 0 {
						if time.Now().After(deadline) {
							mu.Lock()
							failure = "headers still refused as unknown after 20 s"
							mu.Unlock()
							return
						}
						time.Sleep(50 * time.Microsecond)
					}
				}
			}(shares[i])
		}
		close(start)
		wg.Wait()
		if failure != "" {
			t.Fatalf("concurrent peers: %s", failure)
		}
		checkFinal(t, repo, tree, nodes, "concurrent peers")
		forks := 0
		for _, n := range nodes {
			if len(n.Children) >= 2 {
				forks++
			}
		}
		k.Op("size=%d forks=%d peers=%d", len(nodes)/5, forks, peers)
		k.NonTrivial = peers >= 3 && forks >= 2
		k.Done()
	})
}

const ruleLegacy = "legacy storage: a generated straight chain of 0..2300 headers (or 9999 / 10000 / 10001 / 12050, where the migrating Load also prunes) written as version-0 header files (version byte 0, 1000 x 80-byte headers per file starting with genesis; last file partial, full or exactly 1000; optionally a trailing header that does not link) or no files at all (empty storage); oracle: Load (migration) reports the chain's tip/height/accumulated work and the chain at every sampled height, accepts the next headers, keeps a lighter fork on a migrated header below the tip a side branch and lets a heavier one overtake with exactly parent work + own work (the accumulated work of every migrated header, not only the tip), and a Save followed by a Load in a fresh repository reports the same; non-trivial = chain crossing a 1000-header file boundary; distinct = (length class, boundary class)"

func TestProp_C11_legacy(t *testing.T) {
	col := evid.For("C11", "legacy", ruleLegacy)
	rapid.Check(t, func(t *rapid.T) {
		k := col.NewCase()
		ctx := vt.Ctx()
		n := rapid.SampledFrom([]int{0, 0, 1, 2, 5, 37, 998, 999, 1000, 1001, 1999, 2000, 2001, 2300, 2300, 9999, 10000, 10001, 12050}).Draw(t, "length")
		if rapid.Bool().Draw(t, "randomLength") {
			n = rapid.IntRange(0, 2300).Draw(t, "n")
		}
		store := memstore.New()
		raws := []model.RawHeader{mainGenesis}
		work := model.BlockWork(mainGenesis.Bits)
		for i := 1; i <= n; i++ {
			p := raws[i-1]
			raw := model.RawHeader{Version: 1, Prev: p.Hash(), Timestamp: p.Timestamp + 600, Bits: 0x1d00ffff, Nonce: uint32(i)}
			raw.Merkle[0], raw.Merkle[1], raw.Merkle[2] = byte(i), byte(i>>8), 0x0E
			raws = append(raws, raw)
			work = new(big.Int).Add(work, model.BlockWork(raw.Bits))
		}
		empty := n == 0 && rapid.Bool().Draw(t, "noFilesAtAll")
		if !empty {
			for f := 0; f*1000 <= n; f++ {
				buf := []byte{0}
				for i := f * 1000; i < (f+1)*1000 && i <= n; i++ {
					buf = append(buf, raws[i].Bytes()...)
				}
				store.Write(ctx, headersFile(f), buf, nil)
			}
		}
		repo := headers.NewRepository(&headers.Config{Network: bitcoin.MainNet, MaxBranchDepth: 144}, store)
		repo.DisableDifficulty()
		var err error
		if p := vt.Catch(func() { err = repo.Load(ctx) }); p != nil {
			t.Fatalf("Load of legacy files (%d headers) panicked: %v", n, p)
		}
		if err != nil {
			t.Fatalf("Load of legacy files (%d headers) failed: %s", n, err)
		}
		check := func(r *headers.Repository, how string, upTo int, w *big.Int) {
			if r.Height() != upTo || model.Hash(r.LastHash()) != raws[upTo].Hash() {
				t.Fatalf("%s: height %d tip %s, expected height %d (legacy chain of %d)", how, r.Height(), r.LastHash(), upTo, n)
			}
			if r.AccumulatedWork().Cmp(w) != 0 {
				t.Fatalf("%s: accumulated work %s, expected %s", how, r.AccumulatedWork().Text(16), w.Text(16))
			}
			for _, h := range []int{0, 1, 2, 998, 999, 1000, 1001, 1999, 2000, 2001, 9999, 10000, upTo - 10001, upTo - 10000, upTo - 9999, upTo - 1, upTo, upTo / 2, upTo / 3} {
				if h < 0 || h > upTo {
					continue
				}
				hash, err := r.Hash(ctx, h)
				if err != nil || model.Hash(*hash) != raws[h].Hash() {
					t.Fatalf("%s: Hash(%d) wrong (%v)", how, h, err)
				}
				if r.HashHeight(bitcoin.Hash32(raws[h].Hash())) != h {
					t.Fatalf("%s: HashHeight of header %d wrong", how, h)
				}
			}
		}
		check(repo, "after migration", n, work)
		// continue the chain
		more := rapid.IntRange(0, 5).Draw(t, "more")
		for i := 0; i < more; i++ {
			p := raws[len(raws)-1]
			raw := model.RawHeader{Version: 1, Prev: p.Hash(), Timestamp: p.Timestamp + 600, Bits: 0x1d00ffff, Nonce: uint32(900000 + i)}
			if err := repo.ProcessHeader(ctx, toWire(&raw)); err != nil {
				t.Fatalf("header after migration refused: %s", err)
			}
			raws = append(raws, raw)
			work = new(big.Int).Add(work, model.BlockWork(raw.Bits))
		}
		// a fork of the migrated chain: one header on a migrated header below the tip has less
		// cumulative work than the tip and must stay a side branch; a heavier one must overtake
		// with exactly its parent's cumulative work plus its own (the migrated headers carry the
		// right accumulated work, not only the tip)
		upTo := n + more
		if upTo >= 3 && rapid.Bool().Draw(t, "forkBelowTip") {
			f := upTo - 2 - rapid.IntRange(0, min(100, upTo-3)).Draw(t, "forkDepth") // parent height, >= 1
			if f < 1 {
				f = 1
			}
			light := model.RawHeader{Version: 1, Prev: raws[f].Hash(), Timestamp: raws[f].Timestamp + 601, Bits: 0x1d00ffff, Nonce: 910001}
			if err := repo.ProcessHeader(ctx, toWire(&light)); err != nil {
				t.Fatalf("fork header on migrated header %d refused: %s", f, err)
			}
			check(repo, fmt.Sprintf("after a lighter fork header on migrated header %d", f), upTo, work)
			if rapid.Bool().Draw(t, "heavyFork") {
				heavy := model.RawHeader{Version: 1, Prev: raws[f].Hash(), Timestamp: raws[f].Timestamp + 602, Bits: 0x1800ffff, Nonce: 910002}
				if err := repo.ProcessHeader(ctx, toWire(&heavy)); err != nil {
					t.Fatalf("heavy fork header on migrated header %d refused: %s", f, err)
				}
				wf := model.BlockWork(mainGenesis.Bits)
				for i := 1; i <= f; i++ {
					wf = new(big.Int).Add(wf, model.BlockWork(raws[i].Bits))
				}
				wf = new(big.Int).Add(wf, model.BlockWork(heavy.Bits))
				if wf.Cmp(work) > 0 {
					if model.Hash(repo.LastHash()) != heavy.Hash() || repo.Height() != f+1 || repo.AccumulatedWork().Cmp(wf) != 0 {
						t.Fatalf("heavier fork on migrated header %d: tip %s height %d work %s, expected the fork header at height %d with work %s", f, repo.LastHash(), repo.Height(), repo.AccumulatedWork().Text(16), f+1, wf.Text(16))
					}
					raws = append(raws[:f+1:f+1], heavy)
					work = wf
					n, more = f+1, 0
				}
			}
		}
		if err := repo.Save(ctx); err != nil {
			t.Fatalf("Save after migration: %s", err)
		}
		again := headers.NewRepository(&headers.Config{Network: bitcoin.MainNet, MaxBranchDepth: 144}, store)
		again.DisableDifficulty()
		if err := again.Load(ctx); err != nil {
			t.Fatalf("Load after migration+Save: %s", err)
		}
		check(again, "after migration, Save and Load", n+more, work)
		k.Op("n=%d class=%d more=%d empty=%v", n/250, n%1000, more, empty)
		k.NonTrivial = n >= 1000
		k.Done()
	})
}

func headersFile(i int) string {
	const hex = "0123456789abcdef"
	b := []byte("headers/00000000")
	for p := len(b) - 1; i > 0; p-- {
		b[p] = hex[i%16]
		i /= 16
	}
	return string(b)
}

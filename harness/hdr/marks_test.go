package hdr

import (
	"fmt"
	"sort"
	"testing"

	"verifharness/internal/evid"
	"verifharness/internal/memstore"
	"verifharness/internal/model"
	"verifharness/internal/vt"

	"github.com/pkg/errors"
	"github.com/tokenized/bitcoin_reader/headers"
	"github.com/tokenized/pkg/bitcoin"
	"pgregory.net/rapid"
)

// excluded headers: accepted once, then removed by an invalid mark (the marked header and its
// descendants). They must not be reported as in the most-work chain.
func (m *M) descendants(inst *Inst, x *model.Node) []*model.Node {
	var r []*model.Node
	var walk func(n *model.Node)
	walk = func(n *model.Node) {
		if inst.acc[n] {
			r = append(r, n)
		}
		for _, c := range n.Children {
			walk(c)
		}
	}
	walk(x)
	return r
}

func (m *M) opMark(t *rapid.T) {
	inst0 := m.insts[0]
	p := m.pools()
	var target model.Hash
	var what string
	var node *model.Node
	switch rapid.SampledFrom([]int{0, 0, 0, 1, 1, 2, 2, 3, 4}).Draw(t, "markKind") {
	case 0: // best chain at depth k (within memory)
		if p.tip.Height < 1 {
			t.Skip("chain too short")
		}
		maxK := min(p.tip.Height-1, m.depth)
		if m.f.RealDepth {
			// the headers removed with the mark are re-offered one by one after an unmark: keep
			// the removed chain short enough for that (150 covers MaxBranchDepth 144 and both
			// sides of it)
			maxK = min(maxK, 150)
		}
		k := rapid.IntRange(0, maxK).Draw(t, "depth")
		node = p.bestChain[p.tip.Height-k]
		what = fmt.Sprintf("best-chain header at depth %d", k)
	case 1: // side branch header
		var side []*model.Node
		for _, n := range p.all {
			if !model.IsAncestorOrEqual(n, p.tip) {
				side = append(side, n)
			}
		}
		if len(side) == 0 {
			t.Skip("no side branch")
		}
		node = rapid.SampledFrom(side).Draw(t, "side")
		what = "side-branch header"
	case 2: // first header of a branch (a child of a fork point)
		var firsts []*model.Node
		for _, f := range p.forks {
			firsts = append(firsts, acceptedChildren(inst0, f)...)
		}
		if len(firsts) == 0 {
			t.Skip("no fork")
		}
		node = rapid.SampledFrom(firsts).Draw(t, "first")
		what = "first header of a branch"
	case 3: // not yet seen: pre-empt a header that is submitted later
		parent := p.tip
		if len(p.all) > 1 && rapid.Bool().Draw(t, "offTip") {
			parent = rapid.SampledFrom(p.all).Draw(t, "preParent")
		}
		raw := m.newHeader(parent.Hash, parent.Raw.Timestamp, 0x1d00ffff)
		m.pending = append(m.pending, raw)
		target = raw.Hash()
		what = "header not seen yet"
	case 4: // already marked
		if len(inst0.invalid) == 0 {
			t.Skip("nothing marked")
		}
		hs := make([]model.Hash, 0, len(inst0.invalid))
		for h := range inst0.invalid {
			hs = append(hs, h)
		}
		sort.Slice(hs, func(i, j int) bool { return hs[i].String() < hs[j].String() })
		target = rapid.SampledFrom(hs).Draw(t, "marked")
		what = "already marked hash"
	}
	if node != nil {
		if node == m.tree.Genesis || !inst0.held[node] {
			t.Skip("outside the domain: genesis or a header no longer held in memory")
		}
		if model.IsAncestorOrEqual(node, p.tip) && node.Height <= inst0.floor {
			// known finding C17-floor: marks at or below the lowest best-chain header held in
			// memory; excluded by construction so the search continues behind it
			evid.For("C17", "marks", ruleC17).Count("excluded_known_C17-floor", 1)
			t.Skip("known finding C17-floor")
		}
		target = node.Hash
		if model.IsAncestorOrEqual(node, p.tip) {
			m.marksOnBest++
		} else {
			m.marksSide++
		}
	}
	m.k.Op("mark %s", what)
	for _, inst := range m.insts {
		var err error
		if pn := vt.Catch(func() { err = inst.repo.MarkHeaderInvalid(vt.Ctx(), bitcoin.Hash32(target)) }); pn != nil {
			m.fail(inst, "MarkHeaderInvalid(%s) panicked: %v", what, pn)
		}
		if err != nil {
			m.fail(inst, "MarkHeaderInvalid(%s) failed: %s", what, err)
		}
		inst.invalid[target] = true
		if n := m.tree.ByHash[target]; n != nil && inst.acc[n] {
			for _, d := range m.descendants(inst, n) {
				delete(inst.acc, d)
				delete(inst.held, d)
				inst.excluded[d] = true
			}
			if model.IsAncestorOrEqual(n, inst.mainTip) {
				inst.mainTip = n.Parent
			}
		}
	}
	m.afterStepFull(true)
}

func (m *M) opUnmark(t *rapid.T) {
	inst0 := m.insts[0]
	if len(inst0.invalid) == 0 {
		t.Skip("nothing marked")
	}
	hs := make([]model.Hash, 0, len(inst0.invalid))
	for h := range inst0.invalid {
		hs = append(hs, h)
	}
	sort.Slice(hs, func(i, j int) bool { return hs[i].String() < hs[j].String() })
	target := rapid.SampledFrom(hs).Draw(t, "unmark")
	resubmit := rapid.Bool().Draw(t, "resubmit")
	m.k.Op("unmark resubmit=%v", resubmit)
	for _, inst := range m.insts {
		if err := inst.repo.MarkHeaderNotInvalid(vt.Ctx(), bitcoin.Hash32(target)); err != nil {
			m.fail(inst, "MarkHeaderNotInvalid failed: %s", err)
		}
		delete(inst.invalid, target)
	}
	m.unmarked = append(m.unmarked, target)
	m.unmarks++
	m.afterStepFull(true)
	if resubmit {
		m.resubmitMarked(target)
	}
}

// resubmitMarked offers a header that is or was marked (and, when it is accepted, the subtree
// that was removed with it).
func (m *M) resubmitMarked(target model.Hash) {
	var raw *model.RawHeader
	if n := m.tree.ByHash[target]; n != nil {
		raw = &n.Raw
	}
	for i := range m.pending {
		if m.pending[i].Hash() == target {
			raw = &m.pending[i]
		}
	}
	if raw == nil {
		return
	}
	if p := m.tree.ByHash[raw.Prev]; p != nil {
		m.tree.AddChild(*raw)
	}
	m.submit(*raw, "header that is or was marked invalid")
	if n := m.tree.ByHash[target]; n != nil && m.insts[0].acc[n] {
		// re-offer what was built on it
		var walk func(x *model.Node)
		walk = func(x *model.Node) {
			for _, c := range x.Children {
				if m.insts[0].excluded[c] && !m.insts[0].invalid[c.Hash] {
					m.submit(c.Raw, "descendant of an unmarked header")
					walk(c)
				}
			}
		}
		walk(n)
	}
}

func (m *M) opResubmitMarked(t *rapid.T) {
	inst0 := m.insts[0]
	// hashes that are marked now, and hashes that were unmarked earlier in this history (possibly
	// before a Save/Load: the unmarking has to survive it just as the marking does)
	set := map[model.Hash]bool{}
	for h := range inst0.invalid {
		set[h] = true
	}
	for _, h := range m.unmarked {
		set[h] = true
	}
	if len(set) == 0 {
		t.Skip("nothing marked or unmarked yet")
	}
	hs := make([]model.Hash, 0, len(set))
	for h := range set {
		hs = append(hs, h)
	}
	sort.Slice(hs, func(i, j int) bool { return hs[i].String() < hs[j].String() })
	target := rapid.SampledFrom(hs).Draw(t, "resubmitMarked")
	if inst0.invalid[target] {
		m.k.Op("submit marked header")
	} else {
		m.k.Op("submit a header that was unmarked earlier")
		m.k.Class("resubmit_after_unmark")
	}
	m.resubmitMarked(target)
	// and a child of it
	if n := m.tree.ByHash[target]; n != nil {
		child := m.newHeader(n.Hash, n.Raw.Timestamp, 0x1d00ffff)
		m.tree.AddChild(child)
		m.submit(child, "child of a marked header")
	}
}

// checkMarks is the C17 oracle beyond checkTip: marked headers and everything built on them are
// not reported as in the most-work chain.
func (m *M) checkMarks(inst *Inst) {
	ctx := vt.Ctx()
	tip := m.reported(inst)
	for h := range inst.invalid {
		if n := m.tree.ByHash[h]; n != nil && model.IsAncestorOrEqual(n, tip) {
			m.fail(inst, "header %s is marked invalid but is on the reported best chain (tip %s)", n.Label, tip.Label)
		}
	}
	for n := range inst.excluded {
		if inst.acc[n] {
			continue // accepted again after unmarking
		}
		_, flag, err := inst.repo.CheckHeader(ctx, bitcoin.Hash32(n.Hash))
		if err == nil && flag {
			m.fail(inst, "CheckHeader(%s) reports a header removed by an invalid mark as in the most-work chain", n.Label)
		}
		if err != nil && errors.Cause(err) != headers.ErrUnknownHeader {
			m.fail(inst, "CheckHeader(%s) failed: %s", n.Label, err)
		}
	}
}

const ruleC17 = genDesc + " plus mark(x) with x drawn from {best chain at depth k within memory, side-branch header, first header of a branch, header not seen yet, already marked}, unmark(x) with optional resubmission of x and of the subtree removed with it, submission of marked headers and of their children, Save+Load; oracle after EVERY step: reported tip = maximal-work accepted header that is not at or above a mark (reference model with invalid set), marked headers and everything removed with them are not reported in the most-work chain, ProcessHeader(x) for a marked x whose parent is held answers marked-invalid, after unmark it is accepted; non-trivial = a mark on the best chain (tip must fall back) or an unmark followed by re-acceptance, and a Save+Load or a later reorg; distinct = hash of the abstract operation list"

var weightsC17 = map[string]int{"extend": 8, "dup": 1, "late": 1, "clean": 1, "reload": 2, "mark": 4, "unmark": 2, "resubmitMarked": 2}

func TestProp_C17_marks(t *testing.T) {
	col := evid.For("C17", "marks", ruleC17)
	rapid.Check(t, func(t *rapid.T) {
		runHistory(t, col, Focus{ID: "C17", Marks: true, Verdicts: true}, weightsC17, func(m *M) bool {
			if m.marksOnBest > 0 {
				m.k.Class("mark_on_best_chain")
			}
			if m.marksSide > 0 {
				m.k.Class("mark_on_side_branch")
			}
			if m.unmarks > 0 {
				m.k.Class("unmark")
			}
			if m.reaccepted > 0 {
				m.k.Class("reaccepted_after_unmark")
			}
			return (m.marksOnBest > 0 || m.reaccepted > 0) && (m.loads > 0 || m.reorgs > 0)
		})
	})
}

func memstoreNew() *memstore.Store { return memstore.New() }

// chainOf submits n headers on top of genesis and returns their hashes by height.
func chainOf(t *testing.T, repo *headers.Repository, n int) []model.RawHeader {
	raws := []model.RawHeader{mainGenesis}
	prev, ts := mainGenesis.Hash(), mainGenesis.Timestamp
	for i := 1; i <= n; i++ {
		var mr model.Hash
		mr[0], mr[1], mr[2] = byte(i), byte(i>>8), 0x42
		raw := model.RawHeader{Version: 1, Prev: prev, Merkle: mr, Timestamp: ts + 600, Bits: 0x1d00ffff, Nonce: uint32(i)}
		if err := repo.ProcessHeader(vt.Ctx(), toWire(&raw)); err != nil {
			t.Fatalf("header %d: %s", i, err)
		}
		raws = append(raws, raw)
		prev, ts = raw.Hash(), raw.Timestamp
	}
	return raws
}

// TestRegr_C17_mark_at_memory_floor replays known finding C17-floor against the real API only
// (no hooks): 10002 headers, Save, Load (prune depth 10000 keeps heights >= 2), then mark the
// best-chain header at height 2 (the lowest one held in memory) or height 1 (below it).
func TestRegr_C17_mark_at_memory_floor(t *testing.T) {
	col := evid.For("C17", "marks", ruleC17)
	ctx := vt.Ctx()
	for _, markHeight := range []int{2, 1} {
		store := memstoreNew()
		repo := headers.NewRepository(&headers.Config{Network: bitcoin.MainNet, MaxBranchDepth: 144}, store)
		repo.DisableDifficulty()
		repo.InitializeWithGenesis()
		raws := chainOf(t, repo, 10002)
		if err := repo.Save(ctx); err != nil {
			t.Fatal(err)
		}
		loaded := headers.NewRepository(&headers.Config{Network: bitcoin.MainNet, MaxBranchDepth: 144}, store)
		loaded.DisableDifficulty()
		if err := loaded.Load(ctx); err != nil {
			t.Fatal(err)
		}
		target := bitcoin.Hash32(raws[markHeight].Hash())
		var err error
		p := vt.Catch(func() { err = loaded.MarkHeaderInvalid(ctx, target) })
		fails, detail := false, ""
		if p != nil {
			fails, detail = true, fmt.Sprintf("MarkHeaderInvalid(best-chain header at height %d, tip 10002) panicked: %v", markHeight, p)
		} else if err != nil {
			fails, detail = true, fmt.Sprintf("MarkHeaderInvalid failed: %s", err)
		} else if p2 := vt.Catch(func() {
			if loaded.Height() >= markHeight {
				fails, detail = true, fmt.Sprintf("header at height %d marked invalid but the reported chain still has height %d", markHeight, loaded.Height())
			}
		}); p2 != nil {
			fails, detail = true, fmt.Sprintf("Height() panicked after the mark: %v", p2)
		}
		vt.KnownFinding(t, col, "C17-floor", fails, detail)
	}
}

// TestRegr_C12_deep_reorg_crash replays known finding C12-deepreorg with the real API only: a
// 10024-header chain with a stale fork at height 1 is saved, the stale fork then overtakes (a
// reorganisation deeper than the prune depth), and the process stops after the first storage write
// of the following Clean (main header file rewritten, branch files not yet).
func TestRegr_C12_deep_reorg_crash(t *testing.T) {
	col := evid.For("C12", "deep", "")
	ctx := vt.Ctx()
	store := memstore.New()
	cfg := &headers.Config{Network: bitcoin.MainNet, MaxBranchDepth: 144}
	repo := headers.NewRepository(cfg, store)
	repo.DisableDifficulty()
	repo.InitializeWithGenesis()
	raws := chainOf(t, repo, 101)
	// stale fork from height 1, 25 headers
	prev, ts := raws[1].Hash(), raws[1].Timestamp
	var side []model.RawHeader
	add := func(bits uint32, n uint32) {
		raw := model.RawHeader{Version: 1, Prev: prev, Timestamp: ts + 600, Bits: bits, Nonce: 700000 + n}
		if err := repo.ProcessHeader(ctx, toWire(&raw)); err != nil {
			t.Fatalf("side header: %s", err)
		}
		side = append(side, raw)
		prev, ts = raw.Hash(), raw.Timestamp
	}
	for i := 0; i < 25; i++ {
		add(0x1d00ffff, uint32(i))
	}
	// continue the main chain to 10024
	p, pts := raws[101].Hash(), raws[101].Timestamp
	for i := 102; i <= 10024; i++ {
		var mr model.Hash
		mr[0], mr[1], mr[2] = byte(i), byte(i>>8), 0x43
		raw := model.RawHeader{Version: 1, Prev: p, Timestamp: pts + 600, Bits: 0x1d00ffff, Nonce: uint32(i)}
		raw.Merkle = mr
		if err := repo.ProcessHeader(ctx, toWire(&raw)); err != nil {
			t.Fatalf("main header %d: %s", i, err)
		}
		raws = append(raws, raw)
		p, pts = raw.Hash(), raw.Timestamp
	}
	if err := repo.Save(ctx); err != nil {
		t.Fatal(err)
	}
	for i := 0; i < 4; i++ {
		add(0x1b00ffff, uint32(100+i)) // the stale fork overtakes
	}
	j0, snap := store.JournalLen(), store.Snapshot()
	if err := repo.Clean(ctx); err != nil {
		t.Fatal(err)
	}
	ops := store.JournalSince(j0)
	fails, detail := false, ""
	for k := 1; k < len(ops) && !fails; k++ {
		img := memstore.FromSnapshot(snap, ops[:k])
		loaded := headers.NewRepository(cfg, img)
		loaded.DisableDifficulty()
		if err := loaded.Load(ctx); err != nil {
			fails, detail = true, fmt.Sprintf("crash after %d of %d writes of Clean: Load failed: %s", k, len(ops), err)
			break
		}
		for h := 1; h <= 40 && h <= loaded.Height(); h++ {
			hdr, err1 := loaded.Header(ctx, h)
			below, err2 := loaded.Hash(ctx, h-1)
			if err1 != nil || err2 != nil || !hdr.PrevBlock.Equal(below) {
				fails, detail = true, fmt.Sprintf("crash after %d of %d writes of Clean: loaded chain (height %d) is not linked at height %d", k, len(ops), loaded.Height(), h)
				break
			}
		}
	}
	vt.KnownFinding(t, col, "C12-deepreorg", fails, detail)
}

// TestRegr_C12_deep_reorg_crash_small replays known finding C12-deepreorg at a hook prune depth of 3
// (the scenario of TestRegr_C12_deep_reorg_crash stopped failing with repair 31, which changed the
// order of the writes when the new best chain is SHORTER; this is the same defect with a new best
// chain that is longer): genesis - a1; sibling b1 of a1; a2..a5; Clean; Save; b2..b6 (the stale
// fork overtakes from below the prune depth); the process stops after the first storage write of
// the following Clean (main header file rewritten with the b chain, branch files still describe
// the a chain): the loaded repository reports tip a5 but Hash(1) = b1.
func TestRegr_C12_deep_reorg_crash_small(t *testing.T) {
	col := evid.For("C12", "crash", "")
	ctx := vt.Ctx()
	store := memstore.New()
	cfg := &headers.Config{Network: bitcoin.MainNet, MaxBranchDepth: 1}
	repo := headers.NewRepository(cfg, store)
	repo.DisableDifficulty()
	repo.InitializeWithGenesis()
	mk := func(prev model.RawHeader, salt uint32) model.RawHeader {
		raw := model.RawHeader{Version: 1, Prev: prev.Hash(), Timestamp: prev.Timestamp + 600, Bits: 0x1d00ffff, Nonce: salt}
		raw.Merkle[0] = byte(salt)
		if err := repo.ProcessHeader(ctx, toWire(&raw)); err != nil {
			t.Fatalf("header %d: %s", salt, err)
		}
		return raw
	}
	a := []model.RawHeader{mainGenesis, mk(mainGenesis, 1)}
	b := []model.RawHeader{mainGenesis, mk(mainGenesis, 101)}
	for i := 2; i <= 5; i++ {
		a = append(a, mk(a[i-1], uint32(i)))
	}
	if err := repo.VerifClean(ctx, 3); err != nil {
		t.Fatal(err)
	}
	if err := repo.Save(ctx); err != nil {
		t.Fatal(err)
	}
	for i := 2; i <= 6; i++ {
		b = append(b, mk(b[i-1], uint32(100+i)))
	}
	if got := repo.LastHash(); model.Hash(got) != b[6].Hash() {
		t.Fatalf("setup: the b chain did not become best")
	}
	j0, snap := store.JournalLen(), store.Snapshot()
	if err := repo.VerifClean(ctx, 3); err != nil {
		t.Fatal(err)
	}
	ops := store.JournalSince(j0)
	fails, detail := false, ""
	for k := 1; k < len(ops) && !fails; k++ {
		img := memstore.FromSnapshot(snap, ops[:k])
		loaded := headers.NewRepository(cfg, img)
		loaded.DisableDifficulty()
		var lerr error
		if p := vt.Catch(func() { lerr = loaded.VerifLoad(ctx, 3) }); p != nil || lerr != nil {
			fails, detail = true, fmt.Sprintf("crash after %d of %d writes of Clean: Load failed: %v %v", k, len(ops), lerr, p)
			break
		}
		tip := model.Hash(loaded.LastHash())
		chain := a
		if tip == b[len(b)-1].Hash() {
			chain = b
		} else if tip != a[len(a)-1].Hash() {
			fails, detail = true, fmt.Sprintf("crash after %d of %d writes of Clean: loaded tip is neither chain's tip", k, len(ops))
			break
		}
		for h := 1; h < len(chain) && h <= loaded.Height(); h++ {
			var got *bitcoin.Hash32
			var herr error
			if p := vt.Catch(func() { got, herr = loaded.Hash(ctx, h) }); p != nil || herr != nil || got == nil || model.Hash(*got) != chain[h].Hash() {
				fails, detail = true, fmt.Sprintf("crash after %d of %d writes of Clean: the loaded repository reports a tip of chain %c but Hash(%d) is not on it", k, len(ops), map[bool]rune{true: 'b', false: 'a'}[tip == b[len(b)-1].Hash()], h)
				break
			}
		}
	}
	vt.KnownFinding(t, col, "C12-deepreorg", fails, detail)
	if !fails {
		t.Logf("C12-deepreorg no longer reproduces (%d writes)", len(ops))
	}
}

// TestRegr_C11_deep_reorg_load replays known finding C11-deepreorg with the real API only: after a
// reorganisation deeper than the prune depth and a Clean, the old 10002-header chain (now a side
// branch forking at height 1) overtakes again; Save (unconsolidated) and Load.
func TestRegr_C11_deep_reorg_load(t *testing.T) {
	col := evid.For("C11", "deep", "")
	ctx := vt.Ctx()
	store := memstore.New()
	cfg := &headers.Config{Network: bitcoin.MainNet, MaxBranchDepth: 144}
	repo := headers.NewRepository(cfg, store)
	repo.DisableDifficulty()
	repo.InitializeWithGenesis()
	raws := chainOf(t, repo, 100)
	ext := func(prev model.Hash, ts uint32, bits uint32, n, salt int) (model.Hash, uint32) {
		for i := 0; i < n; i++ {
			raw := model.RawHeader{Version: 1, Prev: prev, Timestamp: ts + 600, Bits: bits, Nonce: uint32(salt*100000 + i)}
			raw.Merkle[0], raw.Merkle[1], raw.Merkle[2] = byte(i), byte(i>>8), byte(salt)
			if err := repo.ProcessHeader(ctx, toWire(&raw)); err != nil {
				t.Fatalf("header (salt %d #%d): %s", salt, i, err)
			}
			prev, ts = raw.Hash(), raw.Timestamp
		}
		return prev, ts
	}
	sideTip, sideTs := ext(raws[1].Hash(), raws[1].Timestamp, 0x1d00ffff, 2, 1)        // stale fork from height 1
	mainTip, mainTs := ext(raws[100].Hash(), raws[100].Timestamp, 0x1d00ffff, 9902, 2) // main to 10002
	ext(sideTip, sideTs, 0x1b00ffff, 2, 3)                                             // the stale fork overtakes
	if err := repo.Clean(ctx); err != nil {
		t.Fatalf("Clean: %s", err)
	}
	ext(mainTip, mainTs, 0x1b00ffff, 6, 4) // the old chain overtakes again (unconsolidated)
	fails, detail := false, ""
	if err := repo.Save(ctx); err != nil {
		fails, detail = true, "Save failed: "+err.Error()
	} else {
		loaded := headers.NewRepository(cfg, store)
		loaded.DisableDifficulty()
		var err error
		if p := vt.Catch(func() { err = loaded.Load(ctx) }); p != nil {
			fails, detail = true, fmt.Sprintf("Load panicked: %v", p)
		} else if err != nil {
			fails, detail = true, "Load of what Save wrote failed: "+err.Error()
		} else if p := vt.Catch(func() {
			if loaded.Height() != repo.Height() || loaded.LastHash() != repo.LastHash() {
				fails, detail = true, fmt.Sprintf("loaded tip height %d, original %d", loaded.Height(), repo.Height())
			} else if err := loaded.Clean(ctx); err != nil {
				fails, detail = true, "Clean after Load failed: "+err.Error()
			}
		}); p != nil {
			fails, detail = true, fmt.Sprintf("loaded repository panicked: %v", p)
		}
	}
	vt.KnownFinding(t, col, "C11-deepreorg", fails, detail)
}

// TestRegr_C17_listed_after_accept: a hash that is already on the invalid list while its header is
// still held - the operator added it to Config.InvalidHeaderHashes after the header had been
// accepted and saved, and restarted - used to make MarkHeaderInvalid a no-op ("already marked"):
// the header and everything built on it stayed on the reported best chain. Repaired by "fix: trim a
// header that is marked invalid while it is already on the list".
func TestRegr_C17_listed_after_accept(t *testing.T) {
	ctx := vt.Ctx()
	store := memstoreNew()
	repo := headers.NewRepository(&headers.Config{Network: bitcoin.MainNet, MaxBranchDepth: 144}, store)
	repo.DisableDifficulty()
	repo.InitializeWithGenesis()
	raws := chainOf(t, repo, 5)
	if err := repo.Save(ctx); err != nil {
		t.Fatal(err)
	}
	bad := bitcoin.Hash32(raws[3].Hash())
	loaded := headers.NewRepository(&headers.Config{Network: bitcoin.MainNet, MaxBranchDepth: 144, InvalidHeaderHashes: []bitcoin.Hash32{bad}}, store)
	loaded.DisableDifficulty()
	if err := loaded.Load(ctx); err != nil {
		t.Fatal(err)
	}
	if err := loaded.MarkHeaderInvalid(ctx, bad); err != nil {
		t.Fatalf("MarkHeaderInvalid: %s", err)
	}
	if h := loaded.Height(); h != 2 {
		t.Fatalf("header at height 3 is on the invalid list (configuration) and was marked invalid again, but the reported chain still has height %d", h)
	}
	if err := loaded.ProcessHeader(ctx, toWire(&raws[3])); errors.Cause(err) != headers.ErrHeaderMarkedInvalid {
		t.Fatalf("resubmission of the marked header answered %v", err)
	}
}

// TestRegr_C12_shorter_chain_crash (real API, production constants): the saved best chain ends in
// header file 0b (tip 11006, on an unconsolidated side branch that starts above 11000); a heavier
// but SHORTER chain (tip 10993, file 0a) then becomes best and Clean rewrites the main header files
// for it. saveMainBranch used to delete the following file (0b) right away; a crash before the
// branch files were rewritten left the old index and branches, which still need that file: "Load:
// historical heights: read: headers/0000000b: Not found". Found by the thorough tier of
// TestProp_C12_deep after bulk growth was added; repaired by deleting the file after the branches
// are saved.
func TestRegr_C12_shorter_chain_crash(t *testing.T) {
	ctx := vt.Ctx()
	store := memstore.New()
	cfg := &headers.Config{Network: bitcoin.MainNet, MaxBranchDepth: 144}
	repo := headers.NewRepository(cfg, store)
	repo.DisableDifficulty()
	repo.InitializeWithGenesis()
	raws := chainOf(t, repo, 11003)
	add := func(prev model.RawHeader, bits uint32, nonce uint32) model.RawHeader {
		raw := model.RawHeader{Version: 1, Prev: prev.Hash(), Timestamp: prev.Timestamp + 600, Bits: bits, Nonce: nonce}
		if err := repo.ProcessHeader(ctx, toWire(&raw)); err != nil {
			t.Fatalf("header: %s", err)
		}
		return raw
	}
	// side branch from 11001, five headers with a little more work each: best chain 11006
	p := raws[11001]
	for i := 0; i < 5; i++ {
		p = add(p, 0x1d00aaaa, uint32(800000+i))
	}
	if repo.Height() != 11006 {
		t.Fatalf("setup: height %d", repo.Height())
	}
	if err := repo.Save(ctx); err != nil {
		t.Fatal(err)
	}
	workAtSave := repo.AccumulatedWork()
	// heavier but shorter: three very heavy headers from 10990
	p = raws[10990]
	for i := 0; i < 3; i++ {
		p = add(p, 0x1b00ffff, uint32(810000+i))
	}
	if repo.Height() != 10993 {
		t.Fatalf("setup: heavier but shorter chain did not take (height %d)", repo.Height())
	}
	j0, snap0 := store.JournalLen(), store.Snapshot()
	if err := repo.Clean(ctx); err != nil {
		t.Fatalf("Clean: %s", err)
	}
	ops := store.JournalSince(j0)
	for k := 0; k <= len(ops); k++ {
		img := memstore.FromSnapshot(snap0, ops[:k])
		loaded := headers.NewRepository(cfg, img)
		loaded.DisableDifficulty()
		var err error
		if pn := vt.Catch(func() { err = loaded.Load(ctx) }); pn != nil {
			t.Fatalf("crash after %d of %d storage operations of Clean: Load panicked: %v", k, len(ops), pn)
		}
		if err != nil {
			t.Fatalf("crash after %d of %d storage operations of Clean: Load failed: %s", k, len(ops), err)
		}
		if loaded.AccumulatedWork().Cmp(workAtSave) < 0 {
			t.Fatalf("crash after %d of %d storage operations: loaded chain has less work than at the last Save", k, len(ops))
		}
		// linked from the tip down through the recent window
		h := loaded.Height()
		for x := h; x > h-30; x-- {
			hdr, err := loaded.Header(ctx, x)
			if err != nil {
				t.Fatalf("image %d: Header(%d): %s", k, x, err)
			}
			below, err := loaded.Hash(ctx, x-1)
			if err != nil || !hdr.PrevBlock.Equal(below) {
				t.Fatalf("image %d: header %d does not link to the hash reported at %d", k, x, x-1)
			}
		}
	}
}

package hdr

import (
	"fmt"
	"math/big"
	"sort"

	"verifharness/internal/memstore"
	"verifharness/internal/model"
	"verifharness/internal/vt"

	"github.com/tokenized/bitcoin_reader/headers"
	"github.com/tokenized/pkg/bitcoin"
	"pgregory.net/rapid"
)

// view returns deterministic sorted pools of the primary instance's accepted headers.
type pools struct {
	tip       *model.Node
	sideTips  []*model.Node // accepted leaves other than the tip
	interior  []*model.Node // accepted, off the best chain, with an accepted child
	forks     []*model.Node // accepted with >= 2 accepted children
	all       []*model.Node
	refused   []*model.Node // submitted but never accepted
	bestChain []*model.Node
}

func (m *M) pools() pools {
	inst := m.insts[0]
	var p pools
	p.tip = m.reported(inst)
	p.bestChain = model.Chain(p.tip)
	nodes := make([]*model.Node, 0, len(m.tree.ByHash))
	for _, n := range m.tree.ByHash {
		nodes = append(nodes, n)
	}
	sort.Slice(nodes, func(i, j int) bool { return nodes[i].Seq < nodes[j].Seq })
	for _, n := range nodes {
		if !inst.acc[n] {
			p.refused = append(p.refused, n)
			continue
		}
		p.all = append(p.all, n)
		kids := acceptedChildren(inst, n)
		onBest := n.Height <= p.tip.Height && p.bestChain[n.Height] == n
		if len(kids) == 0 && n != p.tip {
			p.sideTips = append(p.sideTips, n)
		}
		if len(kids) > 0 && !onBest {
			p.interior = append(p.interior, n)
		}
		if len(kids) >= 2 {
			p.forks = append(p.forks, n)
		}
	}
	return p
}

// pickParent chooses an attach point by construction from labelled pools.
func (m *M) pickParent(t *rapid.T) (*model.Node, string) {
	p := m.pools()
	for {
		switch rapid.SampledFrom([]int{0, 0, 0, 1, 1, 1, 2, 2, 3, 4, 4, 5, 6, 7}).Draw(t, "pool") {
		case 0:
			return p.tip, "tip"
		case 1:
			if len(p.sideTips) > 0 {
				return rapid.SampledFrom(p.sideTips).Draw(t, "sideTip"), "sidetip"
			}
		case 2: // best-chain ancestor around the fork-depth limit
			k := rapid.IntRange(1, m.mbd+2).Draw(t, "depthBelowTip")
			if k > 200 {
				k = 1 + k%3
			}
			if h := p.tip.Height - k; h >= 0 {
				return p.bestChain[h], fmt.Sprintf("best-%d", k)
			}
		case 3:
			if len(p.interior) > 0 {
				return rapid.SampledFrom(p.interior).Draw(t, "interior"), "interior"
			}
		case 4:
			if len(p.forks) > 0 {
				return rapid.SampledFrom(p.forks).Draw(t, "fork"), "forkpoint"
			}
		case 5:
			return rapid.SampledFrom(p.all).Draw(t, "any"), "any"
		case 6:
			if len(p.refused) > 0 {
				return rapid.SampledFrom(p.refused).Draw(t, "refused"), "refused"
			}
		case 7: // shallow best-chain ancestor
			k := rapid.IntRange(1, 3).Draw(t, "shallow")
			if h := p.tip.Height - k; h >= 0 {
				return p.bestChain[h], fmt.Sprintf("best-%d", k)
			}
		}
	}
}

// reorgTooDeep is the generator precondition: a header that would become the best tip must not
// fork from the current best chain more than the prune depth below either the old or the new tip
// (production: MaxBranchDepth 144 << prune depth 10000; a reorganisation that deep is outside the
// domain, and with it everything the hooks' small depths would otherwise make observable that the
// shipped constants cannot: storage-served heights are never touched by a reorganisation).
func (m *M) reorgTooDeep(parent *model.Node, bits uint32) bool {
	if (m.f.RealDepth || m.f.DeepReorgs) && !m.f.Crash {
		return false // production constants: no hook artefacts, every reorganisation depth is in the domain
	}
	// (crash legs keep the precondition also at the real depth: known finding C12-deepreorg)
	inst := m.insts[0]
	tip := m.reported(inst)
	lca := model.LCA(parent, tip)
	if lca.Height < parent.Height+1-m.effDepth() {
		return true // no branch runs more than the prune depth beyond its fork from the best chain
	}
	w := new(big.Int).Add(parent.Work, model.BlockWork(bits))
	if w.Cmp(tip.Work) <= 0 {
		return false
	}
	return lca.Height < tip.Height-m.effDepth()
}

func (m *M) opExtend(t *rapid.T) {
	parent, pool := m.pickParent(t)
	run := rapid.IntRange(1, 6).Draw(t, "run")
	bits := rapid.SampledFrom(bitsLadder).Draw(t, "bits")
	m.k.Op("extend from=%s run=%d bits=%08x", pool, run, bits)
	cur := parent
	for i := 0; i < run; i++ {
		if m.reorgTooDeep(cur, bits) { // also for parents the model no longer counts as accepted
			m.k.Class("precondition_reorg_too_deep")
			return
		}
		raw := m.newHeader(cur.Hash, cur.Raw.Timestamp, bits)
		n := m.tree.AddChild(raw)
		m.submit(raw, fmt.Sprintf("%s child of %s@%d", n.Label, cur.Label, cur.Height))
		cur = n
	}
}

// opBulk (real depth): the best chain grows by 900..2600 headers in one step, as during catch-up
// after a restart, so that a later Clean/Save starts in the middle of a header file and crosses one
// or more file boundaries, and a second prune follows the first. The headers are submitted without
// the per-submission oracles; the full oracles run once at the end of the step.
func (m *M) opBulk(t *rapid.T) {
	if !m.f.RealDepth {
		t.Skip("real depth only")
	}
	if m.bulks >= 3 {
		t.Skip("enough bulk growth")
	}
	n := rapid.SampledFrom([]int{900, 1000, 1001, 1500, 2100, 2600}).Draw(t, "bulk")
	m.bulks++
	m.k.Op("bulk growth of the best chain by %d", n)
	m.k.Class("bulk_growth")
	cur := m.reported(m.insts[0])
	for i := 0; i < n; i++ {
		raw := m.newHeader(cur.Hash, cur.Raw.Timestamp, 0x1d00ffff)
		node := m.tree.AddChild(raw)
		if m.bulk == nil {
			m.bulk = model.Set{}
		}
		m.bulk[node] = true
		for _, inst := range m.insts {
			parent := cur
			var err error
			var pn interface{}
			if m.f.Stream && len(inst.subs) > 0 {
				done := make(chan struct{})
				go func() {
					defer close(done)
					pn = vt.Catch(func() { err = inst.repo.ProcessHeader(vt.Ctx(), toWire(&raw)) })
				}()
				m.drainWhile(inst, done)
			} else {
				pn = vt.Catch(func() { err = inst.repo.ProcessHeader(vt.Ctx(), toWire(&raw)) })
			}
			if pn != nil {
				m.fail(inst, "ProcessHeader(bulk header %d at height %d) panicked: %v", i, node.Height, pn)
			}
			if err != nil {
				m.fail(inst, "ProcessHeader(bulk header %d at height %d) failed: %s", i, node.Height, err)
			}
			inst.acc[node], inst.held[node] = true, true
			if parent == inst.mainTip {
				inst.mainTip = node
			}
			if node.Height%10000 == 0 && m.reported(inst) == node {
				m.autoCleaned(inst)
			}
		}
		cur = node
	}
	m.afterStepFull(true)
}

// opAlign (real depth): when the best tip is within 15 below a multiple of 1000, extend it to
// exactly that height (or one beyond / one short) and run a maintenance operation there, so that
// prune and file boundaries coincide (tip 11000 => lowest kept height 1000, tip 20000 => automatic
// clean with whatever branch shape exists at that moment).
func (m *M) opAlign(t *rapid.T) {
	if !m.f.RealDepth {
		t.Skip("real depth only")
	}
	tip := m.reported(m.insts[0])
	next := (tip.Height/1000 + 1) * 1000
	if next-tip.Height > 15 {
		t.Skip("no boundary near")
	}
	target := next + rapid.SampledFrom([]int{0, 0, 0, 1, -1}).Draw(t, "offset")
	then := rapid.SampledFrom([]string{"clean", "reload", "save", "twin", "none"}).Draw(t, "then")
	m.k.Op("align tip to %d then %s", target, then)
	m.k.Class("tip_aligned_to_file_boundary")
	cur := tip
	for cur.Height < target {
		if m.reorgTooDeep(cur, 0x1d00ffff) {
			break
		}
		raw := m.newHeader(cur.Hash, cur.Raw.Timestamp, 0x1d00ffff)
		n := m.tree.AddChild(raw)
		m.submit(raw, fmt.Sprintf("%s child of %s@%d (align)", n.Label, cur.Label, cur.Height))
		cur = n
	}
	switch then {
	case "clean":
		if _, ok := m.actionsEnabled["clean"]; ok {
			m.cleanAll()
			m.afterStepFull(true)
		}
	case "reload":
		if _, ok := m.actionsEnabled["reload"]; ok {
			m.opReload(t)
		}
	case "save":
		if _, ok := m.actionsEnabled["save"]; ok {
			m.opSave(t)
		}
	case "twin":
		if _, ok := m.actionsEnabled["twin"]; ok {
			m.opTwin(t)
		}
	}
}

// opStaleOvertake extends a stale side branch (tip far below the best height) with enough work to
// overtake the best chain: a reorganisation across (almost) the whole retained depth.
func (m *M) opStaleOvertake(t *rapid.T) {
	p := m.pools()
	var stale []*model.Node
	for _, n := range p.sideTips {
		if n.Height < p.tip.Height-5000 {
			stale = append(stale, n)
		}
	}
	if len(stale) == 0 {
		t.Skip("no stale fork")
	}
	cur := rapid.SampledFrom(stale).Draw(t, "staleTip")
	run := rapid.IntRange(1, 3).Draw(t, "run")
	m.k.Op("stale fork tip@%d overtakes run=%d", cur.Height, run)
	m.k.Class("stale_fork_overtakes")
	for i := 0; i < run; i++ {
		raw := m.newHeader(cur.Hash, cur.Raw.Timestamp, 0x1b00ffff)
		n := m.tree.AddChild(raw)
		m.submit(raw, fmt.Sprintf("%s child of stale %s@%d", n.Label, cur.Label, cur.Height))
		cur = n
	}
}

func (m *M) opDup(t *rapid.T) {
	p := m.pools()
	cands := p.all[1:] // not genesis (it has no parent to hold)
	if len(cands) == 0 {
		t.Skip("nothing to duplicate")
	}
	n := rapid.SampledFrom(cands).Draw(t, "dup")
	times := rapid.IntRange(1, 3).Draw(t, "times")
	m.k.Op("dup onBest=%v times=%d", model.IsAncestorOrEqual(n, p.tip), times)
	for i := 0; i < times; i++ {
		m.submit(n.Raw, "duplicate of "+n.Label)
	}
}

func (m *M) opOrphan(t *rapid.T) {
	var prev model.Hash
	m.ctr++
	prev[0], prev[1], prev[2], prev[31] = 0xA5, byte(m.ctr), byte(m.ctr>>8), 0x5A
	raw := m.newHeader(prev, 1500000000, 0x1d00ffff)
	m.k.Op("orphan")
	m.submit(raw, "orphan")
}

// opLate delivers a run of new headers out of order (children before parents), then in order,
// like two peers racing.
func (m *M) opLate(t *rapid.T) {
	parent, pool := m.pickParent(t)
	if !m.insts[0].acc[parent] {
		t.Skip("parent not accepted")
	}
	n := rapid.IntRange(2, 5).Draw(t, "n")
	bits := rapid.SampledFrom(bitsLadder).Draw(t, "bits")
	var raws []model.RawHeader
	cur, ts := parent.Hash, parent.Raw.Timestamp
	curNode := parent
	for i := 0; i < n; i++ {
		if m.reorgTooDeep(curNode, bits) {
			break
		}
		raw := m.newHeader(cur, ts, bits)
		raws = append(raws, raw)
		curNode = m.tree.AddChild(raw)
		cur, ts = raw.Hash(), raw.Timestamp
	}
	if len(raws) < 2 {
		t.Skip("too deep")
	}
	perm := rapid.Permutation(intsTo(len(raws))).Draw(t, "order")
	m.k.Op("late from=%s n=%d order=%v", pool, len(raws), perm)
	for _, i := range perm {
		m.submit(raws[i], fmt.Sprintf("out-of-order #%d", i))
	}
	for i := range raws {
		m.submit(raws[i], fmt.Sprintf("in-order #%d", i))
	}
}

func intsTo(n int) []int {
	r := make([]int, n)
	for i := range r {
		r[i] = i
	}
	return r
}

// ---------------------------------------------------------------------------------------------
// maintenance

func (m *M) lite(inst *Inst) string {
	ctx := vt.Ctx()
	height := inst.repo.Height()
	s := fmt.Sprintf("tip %s h=%d w=%s\n", m.label(model.Hash(inst.repo.LastHash())), height, inst.repo.AccumulatedWork().Text(16))
	heights := intsTo(height + 1)
	nodes := inst.acc.Sorted()
	if m.f.RealDepth {
		heights = m.sampleHeights(inst, height, true)
		sampled := map[int]bool{}
		for _, h := range heights {
			sampled[h] = true
		}
		var sel []*model.Node
		for _, n := range nodes {
			if (n.Seq > m.base && !m.bulk[n]) || sampled[n.Height] {
				sel = append(sel, n)
			}
		}
		nodes = sel
	}
	for _, h := range heights {
		hash, err := inst.repo.Hash(ctx, h)
		if err != nil {
			s += fmt.Sprintf("hash %d err %s\n", h, err)
			continue
		}
		s += fmt.Sprintf("hash %d %s\n", h, m.label(model.Hash(*hash)))
	}
	for _, n := range nodes {
		ch, flag, err := inst.repo.CheckHeader(ctx, bitcoin.Hash32(n.Hash))
		s += fmt.Sprintf("node %s hashheight=%d check=(%d,%v,err=%v)\n", n.Label, inst.repo.HashHeight(bitcoin.Hash32(n.Hash)), ch, flag, err != nil)
	}
	return s
}

// shrinkHeld applies the memory obligation after a prune at the current tip.
func (m *M) shrinkHeld(inst *Inst) { m.shrinkHeldFrom(inst, 0) }

// shrinkHeldFrom: Load takes its prune height from the first saved branch, which is the
// implementation's genesis-rooted main branch; when the best chain was saved unconsolidated that
// branch can be longer (and lighter) than the best chain, so the floor is measured from the higher
// of the two tips.
func (m *M) shrinkHeldFrom(inst *Inst, otherTipHeight int) {
	tip := m.reported(inst)
	base := model.AncestorAt(tip, min(tip.Height, max(0, max(tip.Height, otherTipHeight)-m.effDepth())))
	if base.Height > inst.floor {
		inst.floor = base.Height
	}
	for n := range inst.held {
		if !model.IsAncestorOrEqual(base, n) {
			delete(inst.held, n)
		}
	}
}

func (m *M) branchCount(inst *Inst) int {
	// number of accepted leaves = number of live branches in the model
	c := 0
	for n := range inst.acc {
		if len(acceptedChildren(inst, n)) == 0 {
			c++
		}
	}
	return c
}

func (m *M) opClean(t *rapid.T) {
	times := rapid.SampledFrom([]int{1, 1, 1, 2}).Draw(t, "times")
	m.k.Op("clean x%d branches=%d", times, m.branchCount(m.insts[0]))
	for i := 0; i < times; i++ {
		m.cleanAll()
	}
}

func (m *M) cleanAll() {
	{
		for _, inst := range m.insts {
			var before string
			if m.f.CleanSnap {
				before = m.lite(inst)
			}
			j0, snap0 := inst.store.JournalLen(), inst.store.Snapshot()
			var err error
			if p := vt.Catch(func() { err = m.clean(inst) }); p != nil {
				m.fail(inst, "Clean panicked: %v", p)
			}
			if err != nil {
				m.fail(inst, "Clean failed: %s", err)
			}
			if m.f.CleanSnap {
				if after := m.lite(inst); after != before {
					m.fail(inst, "Clean changed what the repository reports:\n%s", diff(before, after))
				}
			}
			tip := m.reported(inst)
			inst.mainTip = tip
			if inst == m.insts[0] {
				m.cleans++
				if m.branchCount(inst) >= 3 {
					m.cleansMultiBranch++
				}
				for n := range inst.acc {
					if !model.IsAncestorOrEqual(n, tip) {
						m.sideBornBeforeClean[n] = true
					}
				}
				m.maintSinceReorg = true
			}
			m.shrinkHeld(inst)
			if m.f.Crash {
				m.crashImages(inst, snap0, inst.store.JournalSince(j0), "clean")
			}
		}
		m.afterStepFull(true)
	}
}

// consolidated reports whether the best chain is the implementation's main branch.
func (m *M) consolidated(inst *Inst) bool { return inst.mainTip == m.reported(inst) }

// ensureConsolidated used to insert a Clean before every Save in the hooked regime to work around
// Save of an unconsolidated best chain writing a broken main header file; that was a genuine defect
// (found by the real-depth leg, repaired). What remains is the span precondition at Save time: when
// a mark made the best chain fall back, a live branch can run more than the (hooked, tiny) prune
// depth beyond its fork from the best chain, which the shipped constants (144 << 10000) exclude;
// then a Clean is issued first.
func (m *M) ensureConsolidated() {
	if m.f.RealDepth {
		return
	}
	for _, inst := range m.insts {
		tip := m.reported(inst)
		if inst.mainTip != nil {
			// the unconsolidated part of the best chain (above the implementation's main branch)
			if lca := model.LCA(inst.mainTip, tip); tip.Height-lca.Height > m.depth {
				m.k.Op("clean(auto: unconsolidated best chain runs more than the prune depth beyond the main branch)")
				m.cleanAll()
				return
			}
		}
		for n := range inst.acc {
			if len(acceptedChildren(inst, n)) > 0 {
				continue
			}
			lca := model.LCA(n, tip)
			if n.Height-lca.Height > m.depth || tip.Height-lca.Height > m.depth {
				m.k.Op("clean(auto: a branch spans more than the prune depth beyond its fork)")
				m.cleanAll()
				return
			}
		}
	}
}

func (m *M) save(inst *Inst) {
	j0, snap0 := inst.store.JournalLen(), inst.store.Snapshot()
	var err error
	if p := vt.Catch(func() { err = inst.repo.Save(vt.Ctx()) }); p != nil {
		m.fail(inst, "Save panicked: %v", p)
	}
	if err != nil {
		m.fail(inst, "Save failed: %s", err)
	}
	if m.f.Crash {
		m.crashImages(inst, snap0, inst.store.JournalSince(j0), "save")
	}
	inst.lastSaveWork = m.reported(inst).Work
}

func (m *M) opSave(t *rapid.T) {
	m.ensureConsolidated()
	m.k.Op("save branches=%d", m.branchCount(m.insts[0]))
	for _, inst := range m.insts {
		m.save(inst)
	}
	m.saves++
	m.maintSinceReorg = true
	m.afterStepFull(true)
}

// loadedCopy saves src and returns a fresh instance loaded from a copy of its storage.
func (m *M) loadedCopy(src *Inst, name string) *Inst {
	m.save(src)
	store := memstore.FromSnapshot(src.store.Snapshot(), nil)
	inst := m.newInst(name, store)
	var err error
	if p := vt.Catch(func() { err = m.load(inst) }); p != nil {
		m.fail(src, "Load of what Save wrote panicked: %v", p)
	}
	if err != nil {
		m.fail(src, "Load of what Save wrote failed: %s", err)
	}
	for n := range src.acc {
		inst.acc[n] = true
	}
	for n := range src.held {
		inst.held[n] = true
	}
	for h := range src.invalid {
		inst.invalid[h] = true
	}
	for _, h := range m.cfgInvalid {
		// Load merges the configured list into the stored one. A configured hash that was unmarked
		// and whose header was accepted again before this Load is a contradiction in the caller's
		// own input (the configuration still calls it invalid): neither C17 nor the documentation
		// says what the restart does with it, so the model leaves it valid and the verdict oracle
		// tolerates "marked invalid" for it from then on.
		if n := m.tree.ByHash[h]; n != nil && (src.acc[n] || src.forgot[n]) {
			inst.cfgAmbiguous[h] = true
			continue
		}
		inst.invalid[h] = true
	}
	for n := range src.excluded {
		inst.excluded[n] = true
	}
	inst.lastSaveWork = src.lastSaveWork
	inst.mainTip = src.mainTip
	inst.floor = src.floor
	for n := range src.forgot {
		inst.forgot[n] = true
	}
	for h := range src.cfgAmbiguous {
		inst.cfgAmbiguous[h] = true
	}
	m.shrinkHeld(inst)
	// what Load does not restore is no longer an accepted header of this instance
	tip := m.reported(inst)
	for n := range inst.acc {
		if !inst.held[n] && !model.IsAncestorOrEqual(n, tip) {
			delete(inst.acc, n)
			inst.forgot[n] = true
		}
	}
	return inst
}

// opReload: Save, then continue on a repository loaded from storage (a restart).
func (m *M) opReload(t *rapid.T) {
	m.ensureConsolidated()
	side := len(m.pools().sideTips)
	m.k.Op("save+load(restart) sideBranches=%d", side)
	for i, inst := range m.insts {
		m.insts[i] = m.loadedCopy(inst, inst.name+"'")
	}
	m.loads++
	if side > 0 {
		m.sideAtSave++
	}
	m.maintSinceReorg = true
	m.afterStepFull(true)
}

// opTwin: Save, Load a twin from a copy of the storage and keep both in lock-step (C11).
func (m *M) opTwin(t *rapid.T) {
	m.ensureConsolidated()
	src := m.insts[len(m.insts)-1]
	side := len(m.pools().sideTips)
	m.k.Op("save+load(twin of %s) sideBranches=%d", src.name, side)
	twin := m.loadedCopy(src, src.name+"+")
	// the loaded repository must report exactly what the original reports
	a, b := m.lite(src), m.lite(twin)
	if a != b {
		// lookups of dropped side branches may legitimately differ; compare strictly only the
		// tip and heights here, the per-node oracles run in afterStep.
		at, bt := m.reported(src), m.reported(twin)
		if at != bt {
			m.fail(twin, "loaded repository reports tip %s, original %s", bt.Label, at.Label)
		}
	}
	m.insts = []*Inst{m.insts[0], twin}
	m.loads++
	if side > 0 {
		m.sideAtSave++
	}
	m.afterStepFull(true)
}

func (m *M) opSubscribe(t *rapid.T) {
	if len(m.insts[0].subs) >= 3 {
		t.Skip("enough subscribers")
	}
	m.k.Op("subscribe at height %d", m.insts[0].repo.Height())
	for _, inst := range m.insts {
		m.subscribe(inst)
	}
}

// ---------------------------------------------------------------------------------------------
// crash images (C12)

func (m *M) crashImages(inst *Inst, snap0 map[string][]byte, ops []memstore.Op, what string) {
	for k := 0; k <= len(ops); k++ {
		store := memstore.FromSnapshot(snap0, ops[:k])
		cfg := &headers.Config{Network: bitcoin.MainNet, MaxBranchDepth: m.mbd}
		repo := headers.NewRepository(cfg, store)
		repo.DisableDifficulty()
		var err error
		p := vt.Catch(func() {
			if m.f.RealDepth {
				err = repo.Load(vt.Ctx())
			} else {
				err = repo.VerifLoad(vt.Ctx(), m.depth)
			}
		})
		where := fmt.Sprintf("crash after %d of %d storage operations of %s %v", k, len(ops), what, opKeys(ops))
		if p != nil {
			m.fail(inst, "%s: Load panicked: %v", where, p)
		}
		if err != nil {
			m.fail(inst, "%s: Load failed: %s", where, err)
		}
		ctx := vt.Ctx()
		var tipNode *model.Node
		p = vt.Catch(func() {
			last := model.Hash(repo.LastHash())
			tipNode = m.tree.ByHash[last]
			if tipNode == nil || !inst.acc[tipNode] {
				m.fail(inst, "%s: loaded tip %s is not an accepted header", where, last)
			}
			height := repo.Height()
			if height != tipNode.Height {
				m.fail(inst, "%s: loaded Height()=%d but tip %s has height %d", where, height, tipNode.Label, tipNode.Height)
			}
			chain := model.Chain(tipNode)
			heights := intsTo(height + 1)
			if m.f.RealDepth {
				heights = m.sampleHeights(inst, height, false)
			}
			for _, h := range heights {
				hash, err := repo.Hash(ctx, h)
				if err != nil {
					m.fail(inst, "%s: Hash(%d) failed after load: %s (tip %s@%d)", where, h, err, tipNode.Label, height)
				}
				if model.Hash(*hash) != chain[h].Hash {
					m.fail(inst, "%s: loaded chain is not linked: Hash(%d)=%s, ancestor of tip %s is %s", where, h, m.label(model.Hash(*hash)), tipNode.Label, chain[h].Label)
				}
			}
		})
		if p != nil {
			m.fail(inst, "%s: reading the loaded repository panicked: %v", where, p)
		}
		floor := m.tree.Genesis.Work
		if inst.lastSaveWork != nil {
			floor = inst.lastSaveWork
		}
		if tipNode.Work.Cmp(floor) < 0 {
			m.fail(inst, "%s: loaded tip %s@%d has work %s, less than the tip at the last completed Save (%s)", where, tipNode.Label, tipNode.Height, tipNode.Work.Text(16), floor.Text(16))
		}
		m.crashCount++
		if k > 0 && k < len(ops) {
			m.crashMidCount++
		}
	}
}

func opKeys(ops []memstore.Op) []string {
	var r []string
	for _, o := range ops {
		k := o.Key
		if len(k) > 26 {
			k = k[:18] + ".." + k[len(k)-6:]
		}
		if o.Remove {
			k = "rm:" + k
		}
		r = append(r, k)
	}
	return r
}

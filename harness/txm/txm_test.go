package txm

import (
	"fmt"
	"sort"
	"strings"
	"sync"
	"testing"
	"time"

	"verifharness/internal/evid"
	"verifharness/internal/model"
	"verifharness/internal/p2p"
	"verifharness/internal/sess"
	"verifharness/internal/spy"
	"verifharness/internal/vt"

	"github.com/google/uuid"
	bitcoin_reader "github.com/tokenized/bitcoin_reader"
	"github.com/tokenized/pkg/bitcoin"
	"github.com/tokenized/pkg/wire"
	"pgregory.net/rapid"
)

func TestMain(m *testing.M) { vt.Main(m) }

type txState struct {
	received   bool
	requested  bool // a request was issued at some point
	lastReqLo  time.Time
	lastReqHi  time.Time
	announcers map[int]bool // peers that announced it and have not been asked
}

// makeTxs returns m distinct transactions; some share the first txid byte (same bucket).
func makeTxs(m int) ([]*wire.MsgTx, []model.Hash) {
	var txs []*wire.MsgTx
	var ids []model.Hash
	byFirst := map[byte]int{}
	for seed := uint32(1); len(txs) < m; seed++ {
		tx := p2p.Tx(seed, 80)
		id := p2p.TxID(tx)
		// keep about half of them in two buckets
		if len(txs) >= m/2 || byFirst[id[0]&0xfe] < 3 && (id[0]&0xfe == 0x10 || len(txs) < 2 || true) {
			txs = append(txs, tx)
			ids = append(ids, id)
			byFirst[id[0]&0xfe]++
		}
	}
	return txs, ids
}

const ruleModel = "rapid state machine over N<=5 peer ids x M<=8 transactions: announce(n,tx) = AddTxID, deliver(n,tx) = AddTx (solicited or not), poll(n) = GetTxRequests, in three request-timeout regimes that make every outcome clock-independent or measured: 1 h (nothing ever times out), 0 (every request already timed out), 40 ms with explicit 60 ms sleeps where every decision that falls within 15 ms of the timeout boundary discards the case as inconclusive; a TxManager.Run goroutine feeds a recording processor/saver; oracle = per-txid model {received, last request window, announcers}: AddTxID true exactly when the txid is new or its outstanding request timed out and it was not received; GetTxRequests(n) returns exactly the txids announced by n, not received, timed out, and not again until the next timeout; nothing is requested after delivery; at the end ProcessTx count per delivered txid == 1 and SaveTx == 1 iff relevant; non-trivial = a txid announced by >=2 peers and delivered by >=2, or a retry after a timeout; distinct = hash of the abstract operation list"

func TestProp_C06_model(t *testing.T) {
	col := evid.For("C06", "model", ruleModel)
	rapid.Check(t, modelProp(col, []string{"1h", "1h", "0"}))
}

// TestProp_C06_timed is the same machine in the 40 ms regime (real sleeps; fewer cases).
func TestProp_C06_timed(t *testing.T) {
	col := evid.For("C06", "timed", ruleModel)
	rapid.Check(t, modelProp(col, []string{"40ms"}))
}

func modelProp(col *evid.Collector, regimes []string) func(t *rapid.T) {
	return func(t *rapid.T) {
		k := col.NewCase()
		ctx := vt.Ctx()
		regime := rapid.SampledFrom(regimes).Draw(t, "regime")
		timeout := map[string]time.Duration{"1h": time.Hour, "0": 0, "40ms": 40 * time.Millisecond}[regime]
		margin := 15 * time.Millisecond
		tm := bitcoin_reader.NewTxManager(timeout)
		log := spy.NewLog()
		nPeers := rapid.IntRange(1, 5).Draw(t, "peers")
		nTx := rapid.IntRange(1, 8).Draw(t, "txs")
		txs, ids := makeTxs(nTx)
		relevant := map[model.Hash]bool{}
		for _, id := range ids {
			relevant[id] = rapid.Bool().Draw(t, "relevant")
		}
		log.Relevant = func(id model.Hash) bool { return relevant[id] }
		tm.SetTxProcessor(spy.Processor{L: log})
		tm.SetTxSaver(spy.Saver{L: log})
		runDone := make(chan error, 1)
		go func() { runDone <- tm.Run(ctx) }()
		peers := make([]uuid.UUID, nPeers)
		for i := range peers {
			peers[i] = uuid.New()
		}
		st := map[model.Hash]*txState{}
		delivered := map[model.Hash]map[int]bool{}
		announcedBy := map[model.Hash]map[int]bool{}
		retries := 0
		inconclusive := false
		interrupt := make(chan interface{})

		// timedOut decides, with the measured call windows, whether the outstanding request of s
		// has timed out at a call that ran within [lo,hi]; ok=false when too close to call.
		timedOut := func(s *txState, lo, hi time.Time) (to bool, ok bool) {
			switch regime {
			case "1h":
				return false, true
			case "0":
				return true, true
			}
			if lo.Sub(s.lastReqHi) >= timeout+margin {
				return true, true
			}
			if hi.Sub(s.lastReqLo) < timeout-margin {
				return false, true
			}
			return false, false
		}

		t.Repeat(map[string]func(*rapid.T){
			"announce": func(t *rapid.T) {
				n := rapid.IntRange(0, nPeers-1).Draw(t, "peer")
				x := rapid.IntRange(0, nTx-1).Draw(t, "tx")
				id := ids[x]
				lo := time.Now()
				got, err := tm.AddTxID(ctx, peers[n], bitcoin.Hash32(id))
				hi := time.Now()
				if err != nil {
					t.Fatalf("AddTxID: %s", err)
				}
				if announcedBy[id] == nil {
					announcedBy[id] = map[int]bool{}
				}
				announcedBy[id][n] = true
				s := st[id]
				want := false
				switch {
				case s == nil:
					want = true
					st[id] = &txState{requested: true, lastReqLo: lo, lastReqHi: hi, announcers: map[int]bool{}}
				case s.received:
					want = false
				default:
					to, ok := timedOut(s, lo, hi)
					if !ok {
						inconclusive = true
						t.Skip("too close to the timeout boundary")
					}
					if to {
						want = true
						s.lastReqLo, s.lastReqHi = lo, hi
						delete(s.announcers, n)
						retries++
					} else {
						s.announcers[n] = true
					}
				}
				if got != want {
					t.Fatalf("AddTxID(peer %d, tx %d) = %v, model says %v (regime %s, state %+v)", n, x, got, want, regime, s)
				}
				k.Op("announce p%d t%d -> %v", n, x, got)
			},
			"deliver": func(t *rapid.T) {
				n := rapid.IntRange(0, nPeers-1).Draw(t, "peer")
				x := rapid.IntRange(0, nTx-1).Draw(t, "tx")
				id := ids[x]
				if err := tm.AddTx(ctx, interrupt, peers[n], txs[x]); err != nil {
					t.Fatalf("AddTx: %s", err)
				}
				if st[id] == nil {
					now := time.Now()
					st[id] = &txState{lastReqLo: now, lastReqHi: now, announcers: map[int]bool{}}
				}
				st[id].received = true
				if delivered[id] == nil {
					delivered[id] = map[int]bool{}
				}
				delivered[id][n] = true
				k.Op("deliver p%d t%d", n, x)
			},
			"poll": func(t *rapid.T) {
				n := rapid.IntRange(0, nPeers-1).Draw(t, "peer")
				lo := time.Now()
				got, err := tm.GetTxRequests(ctx, peers[n], 10000)
				hi := time.Now()
				if err != nil {
					t.Fatalf("GetTxRequests: %s", err)
				}
				var want []string
				for _, id := range ids {
					s := st[id]
					if s == nil || s.received || !s.announcers[n] {
						continue
					}
					to, ok := timedOut(s, lo, hi)
					if !ok {
						inconclusive = true
						t.Skip("too close to the timeout boundary")
					}
					if to {
						want = append(want, id.String())
						s.lastReqLo, s.lastReqHi = lo, hi
						delete(s.announcers, n)
						retries++
					}
				}
				var gotS []string
				for _, h := range got {
					gotS = append(gotS, model.Hash(h).String())
				}
				sort.Strings(want)
				sort.Strings(gotS)
				if fmt.Sprint(gotS) != fmt.Sprint(want) {
					t.Fatalf("GetTxRequests(peer %d) = %v, model says %v (regime %s)", n, short(gotS), short(want), regime)
				}
				k.Op("poll p%d -> %d", n, len(got))
			},
			"sleep": func(t *rapid.T) {
				if regime != "40ms" {
					t.Skip("no clock in this regime")
				}
				time.Sleep(60 * time.Millisecond)
				k.Op("sleep")
			},
		})
		tm.Stop(ctx)
		select {
		case err := <-runDone:
			if err != nil {
				t.Fatalf("TxManager.Run: %s", err)
			}
		case <-time.After(10 * time.Second):
			t.Fatalf("TxManager.Run did not return after Stop")
		}
		multi := false
		for _, id := range ids {
			wantP := 0
			if len(delivered[id]) > 0 {
				wantP = 1
			}
			if c := log.CountTx("ProcessTx", id); c != wantP {
				t.Fatalf("transaction delivered by %d peers reached the processor %d times", len(delivered[id]), c)
			}
			wantS := 0
			if wantP == 1 && relevant[id] {
				wantS = 1
			}
			if c := log.CountTx("SaveTx", id); c != wantS {
				t.Fatalf("transaction (relevant=%v) saved %d times", relevant[id], c)
			}
			if len(delivered[id]) >= 2 && len(announcedBy[id]) >= 2 {
				multi = true
			}
		}
		if inconclusive {
			col.Count("inconclusive_timing", 1)
		}
		k.Class("regime_" + regime)
		if retries > 0 {
			k.Class("retry_after_timeout")
		}
		k.NonTrivial = multi || retries > 0
		k.Done()
	}
}

func short(l []string) []string {
	r := make([]string, len(l))
	for i, s := range l {
		r[i] = s[:8]
	}
	return r
}

const ruleConc = "2..6 barrier-started goroutines (one per peer id) announce and then deliver the same 1..6 transactions at the same instant (request timeout 1 h), TxManager.Run feeding a recording processor; oracle (must hold for every linearisation): per txid at most one AddTxID returned true, every delivered txid reached the processor exactly once and the saver once iff relevant; non-trivial = a txid announced and delivered by >=2 goroutines; distinct = (peers, txs, per-peer script shape)"

func TestProp_C06_concurrent(t *testing.T) {
	col := evid.For("C06", "concurrent", ruleConc)
	rapid.Check(t, func(t *rapid.T) {
		k := col.NewCase()
		ctx := vt.Ctx()
		tm := bitcoin_reader.NewTxManager(time.Hour)
		log := spy.NewLog()
		log.Relevant = func(id model.Hash) bool { return id[1]&1 == 0 }
		tm.SetTxProcessor(spy.Processor{L: log})
		tm.SetTxSaver(spy.Saver{L: log})
		runDone := make(chan error, 1)
		go func() { runDone <- tm.Run(ctx) }()
		g := rapid.IntRange(2, 6).Draw(t, "peers")
		nTx := rapid.IntRange(1, 6).Draw(t, "txs")
		txs, ids := makeTxs(nTx)
		type step struct {
			deliver bool
			tx      int
		}
		scripts := make([][]step, g)
		touch := map[int]int{}
		for i := range scripts {
			order := rapid.Permutation(intsTo(nTx)).Draw(t, "order")
			for _, x := range order {
				if rapid.IntRange(0, 3).Draw(t, "skip") == 0 {
					continue
				}
				scripts[i] = append(scripts[i], step{false, x})
				if rapid.Bool().Draw(t, "alsoDeliver") {
					scripts[i] = append(scripts[i], step{true, x})
					touch[x]++
				}
			}
			k.Op("g%d steps=%d", i, len(scripts[i]))
		}
		start := make(chan struct{})
		interrupt := make(chan interface{})
		var wg sync.WaitGroup
		var mu sync.Mutex
		trues := map[int]int{}
		deliveredAny := map[int]bool{}
		for i := range scripts {
			wg.Add(1)
			go func(i int) {
				defer wg.Done()
				id := uuid.New()
				<-start
				for _, s := range scripts[i] {
					if s.deliver {
						tm.AddTx(ctx, interrupt, id, txs[s.tx])
						mu.Lock()
						deliveredAny[s.tx] = true
						mu.Unlock()
					} else {
						ok, _ := tm.AddTxID(ctx, id, bitcoin.Hash32(ids[s.tx]))
						if ok {
							mu.Lock()
							trues[s.tx]++
							mu.Unlock()
						}
					}
				}
			}(i)
		}
		close(start)
		wg.Wait()
		tm.Stop(ctx)
		<-runDone
		for x, id := range ids {
			if trues[x] > 1 {
				t.Fatalf("transaction %d was requested from %d peers at once (request timeout 1 h)", x, trues[x])
			}
			want := 0
			if deliveredAny[x] {
				want = 1
			}
			if c := log.CountTx("ProcessTx", id); c != want {
				t.Fatalf("transaction %d delivered concurrently reached the processor %d times, want %d", x, c, want)
			}
			wantS := 0
			if want == 1 && log.Relevant(id) {
				wantS = 1
			}
			if c := log.CountTx("SaveTx", id); c != wantS {
				t.Fatalf("transaction %d saved %d times, want %d", x, c, wantS)
			}
			if touch[x] >= 2 {
				k.NonTrivial = true
			}
		}
		k.Done()
	})
}

func intsTo(n int) []int {
	r := make([]int, n)
	for i := range r {
		r[i] = i
	}
	return r
}

const ruleE2E = "two verified real BitcoinNodes sharing one TxManager (request timeout 1 h) over loopback TCP, each against its own scripted peer: a drawn script of inv announcements (1..3 txids each, new / already outstanding / already delivered) and tx deliveries (solicited or not) from either peer, in one case of eight followed by one inv of 49 999..100 001 fresh txids (more than one getdata may hold); in half of the cases everything the scripted peer writes is cut into pieces of 1..100 bytes over the first 160 bytes of each send (TCP segmentation at arbitrary offsets); oracle: a getdata goes to a peer for exactly the txids that were new when that peer announced them (one getdata entry per new txid, none for a txid outstanding at the other peer or already delivered), and every delivered transaction reaches the processor exactly once; non-trivial = a txid announced by both peers; distinct = the script"

func TestProp_C06_e2e(t *testing.T) {
	col := evid.For("C06", "e2e", ruleE2E)
	rapid.Check(t, func(t *rapid.T) {
		k := col.NewCase()
		ctx := vt.Ctx()
		tm := bitcoin_reader.NewTxManager(time.Hour)
		log := spy.NewLog()
		tm.SetTxProcessor(spy.Processor{L: log})
		runDone := make(chan error, 1)
		go func() { runDone <- tm.Run(ctx) }()
		var ss [2]*sess.Session
		var fragment []int
		if rapid.Bool().Draw(t, "fragmented") {
			fragment = rapid.SliceOfN(rapid.SampledFrom(p2p.GenFragmentSizes), 1, 4).Draw(t, "pieces")
		}
		for i := range ss {
			ss[i] = sess.Start(t, sess.Opts{TxManager: tm, Fragment: fragment})
			defer ss[i].Finish(10 * time.Second)
			ss[i].Ready(t)
		}
		nTx := rapid.IntRange(1, 6).Draw(t, "txs")
		txs, ids := makeTxs(nTx)
		known := map[int]bool{}     // txid known to the manager (announced or delivered)
		delivered := map[int]bool{} // delivered at least once
		wantGetdata := [2]map[model.Hash]int{{}, {}}
		annBy := map[int]map[int]bool{}
		steps := rapid.IntRange(1, 10).Draw(t, "steps")
		for s := 0; s < steps; s++ {
			p := rapid.IntRange(0, 1).Draw(t, "peer")
			if rapid.IntRange(0, 2).Draw(t, "deliver") == 0 {
				x := rapid.IntRange(0, nTx-1).Draw(t, "tx")
				ss[p].Peer.Send(p2p.TxFrame(txs[x], rapid.Bool().Draw(t, "ext")))
				known[x], delivered[x] = true, true
				k.Op("p%d tx t%d", p, x)
			} else {
				n := rapid.IntRange(1, 3).Draw(t, "n")
				var list []model.Hash
				var xs []int
				for j := 0; j < n; j++ {
					x := rapid.IntRange(0, nTx-1).Draw(t, "itx")
					dup := false
					for _, y := range xs {
						if y == x {
							dup = true
						}
					}
					if dup {
						continue
					}
					xs = append(xs, x)
					list = append(list, ids[x])
					if !known[x] {
						wantGetdata[p][ids[x]]++
						known[x] = true
					}
					if annBy[x] == nil {
						annBy[x] = map[int]bool{}
					}
					annBy[x][p] = true
				}
				ss[p].Peer.Send(p2p.Inv(1, list))
				k.Op("p%d inv %v", p, xs)
			}
			// serialise: the node has consumed the message once the ping is answered
			nonce := uint64(1000 + s)
			ss[p].Peer.Send(p2p.Ping(nonce))
			if !ss[p].Peer.WaitPong(nonce, 10*time.Second) {
				t.Fatalf("peer %d: no pong after step %d", p, s)
			}
		}
		// optionally one announcement larger than a getdata message may hold (50 000 entries): the
		// node has to spread its request over several getdata messages
		if rapid.IntRange(0, 7).Draw(t, "hugeInv") == 0 {
			p := rapid.IntRange(0, 1).Draw(t, "hugePeer")
			n := rapid.SampledFrom([]int{49999, 50000, 50001, 50002, 100000, 100001}).Draw(t, "hugeCount")
			list := make([]model.Hash, n)
			for i := range list {
				list[i] = model.DoubleSHA([]byte(fmt.Sprintf("huge-%d-%d", steps, i)))
				wantGetdata[p][list[i]]++
			}
			ss[p].Peer.Send(p2p.Inv(1, list))
			ss[p].Peer.Send(p2p.Ping(999999))
			if !ss[p].Peer.WaitPong(999999, 30*time.Second) {
				t.Fatalf("peer %d: no pong after an inv of %d items", p, n)
			}
			k.Op("p%d inv of %d fresh txids", p, n)
			k.Class("huge-inv")
		}
		for p := range ss {
			got := map[model.Hash]int{}
			for _, f := range ss[p].Peer.Received() {
				if f.Command != "getdata" {
					continue
				}
				hashes, err := parseGetdata(f.Payload)
				if err != nil {
					t.Fatalf("peer %d: %s", p, err)
				}
				for _, h := range hashes {
					got[h]++
				}
			}
			if diff := diffCounts(got, wantGetdata[p]); diff != "" {
				t.Fatalf("peer %d received getdata for %d txids, expected %d: %s", p, len(got), len(wantGetdata[p]), diff)
			}
		}
		tm.Stop(ctx)
		// Stop closes the channel the nodes write to; finish the sessions first in real use. Here
		// no more transactions are sent, so draining is safe.
		<-runDone
		for x, id := range ids {
			want := 0
			if delivered[x] {
				want = 1
			}
			if c := log.CountTx("ProcessTx", id); c != want {
				t.Fatalf("transaction %d reached the processor %d times, want %d", x, c, want)
			}
			if len(annBy[x]) == 2 {
				k.NonTrivial = true
			}
		}
		k.Done()
	})
}

// parseGetdata decodes a getdata payload (var-int count, 36-byte entries).
func parseGetdata(pl []byte) ([]model.Hash, error) {
	if len(pl) < 1 {
		return nil, fmt.Errorf("empty getdata")
	}
	cnt, off := 0, 1
	switch {
	case pl[0] < 0xfd:
		cnt = int(pl[0])
	case pl[0] == 0xfd && len(pl) >= 3:
		cnt, off = int(pl[1])|int(pl[2])<<8, 3
	case pl[0] == 0xfe && len(pl) >= 5:
		cnt, off = int(pl[1])|int(pl[2])<<8|int(pl[3])<<16|int(pl[4])<<24, 5
	default:
		return nil, fmt.Errorf("getdata count prefix %x", pl[0])
	}
	if cnt > 50000 {
		return nil, fmt.Errorf("getdata with %d entries (the protocol maximum is 50000)", cnt)
	}
	if len(pl) != off+cnt*36 {
		return nil, fmt.Errorf("getdata payload of %d bytes for %d entries", len(pl), cnt)
	}
	out := make([]model.Hash, cnt)
	for i := range out {
		copy(out[i][:], pl[off+i*36+4:off+i*36+36])
	}
	return out, nil
}

// diffCounts describes up to six differences between two txid -> count maps ("" when equal).
func diffCounts(got, want map[model.Hash]int) string {
	var d []string
	for h, c := range want {
		if got[h] != c {
			d = append(d, fmt.Sprintf("%s requested x%d, expected x%d", h.String()[:8], got[h], c))
		}
	}
	for h, c := range got {
		if _, ok := want[h]; !ok {
			d = append(d, fmt.Sprintf("%s requested x%d, expected x0", h.String()[:8], c))
		}
	}
	sort.Strings(d)
	if len(d) > 6 {
		d = append(d[:6], fmt.Sprintf("... %d differences", len(d)))
	}
	return strings.Join(d, "; ")
}

func sortedCounts(m map[model.Hash]int) []string {
	var r []string
	for h, c := range m {
		r = append(r, fmt.Sprintf("%s x%d", h.String()[:8], c))
	}
	sort.Strings(r)
	return r
}

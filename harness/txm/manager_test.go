package txm

import (
	"fmt"
	"testing"
	"time"

	"verifharness/internal/evid"
	"verifharness/internal/model"
	"verifharness/internal/p2p"
	"verifharness/internal/sess"
	"verifharness/internal/spy"
	"verifharness/internal/vt"

	bitcoin_reader "github.com/tokenized/bitcoin_reader"
	"github.com/tokenized/pkg/wire"
	"pgregory.net/rapid"
)

// ---------------------------------------------------------------------------------------------
// C06, manager leg: the retry path through NodeManager.RequestTxs.

const ruleMgr = "a real NodeManager with a TxManager (request timeout 40 ms) and a drawn TxRequestCount (1..4, or the default 10000) finds 2..3 scripted peers in its address book and runs a verified BitcoinNode towards each; every peer announces the same 1..8 transactions (all in ONE txid bucket in half of the cases, so that a retry answer exceeds the per-request count) one peer after the other; the first peer optionally delivers a drawn subset; then, once per remaining peer, the harness sleeps past the timeout and calls NodeManager.RequestTxs 3*(transactions+2) times (a ping/pong with every peer after each call serialises the node side); oracle (independent of how long anything took): at the end every peer has received a getdata entry for every transaction that was not delivered exactly once - at its own announcement or through a retry - and none for a transaction delivered before it announced it, no getdata entry names anything else, and every delivered transaction reached the processor exactly once; non-trivial = at least two undelivered transactions in one bucket with a TxRequestCount below their number, or three peers; distinct = (peers, transactions, bucket mode, limit, delivered subset)"

var (
	sameBucketTxs  []*wire.MsgTx
	sameBucketIDs  []model.Hash
	mixedBucketTxs []*wire.MsgTx
	mixedBucketIDs []model.Hash
)

func init() {
	for seed := uint32(5000); len(sameBucketTxs) < 8; seed++ {
		tx := p2p.Tx(seed, 80)
		id := p2p.TxID(tx)
		if id[0] == 0x5a {
			sameBucketTxs = append(sameBucketTxs, tx)
			sameBucketIDs = append(sameBucketIDs, id)
		}
	}
	mixedBucketTxs, mixedBucketIDs = makeTxs(8)
}

func getdataEntries(p *p2p.Peer) (map[model.Hash]int, error) {
	got := map[model.Hash]int{}
	for _, f := range p.Received() {
		if f.Command != "getdata" {
			continue
		}
		hashes, err := parseGetdata(f.Payload)
		if err != nil {
			return nil, err
		}
		for _, h := range hashes {
			got[h]++
		}
	}
	return got, nil
}

func TestProp_C06_manager(t *testing.T) {
	col := evid.For("C06", "manager", ruleMgr)
	const timeout = 40 * time.Millisecond
	rapid.Check(t, func(t *rapid.T) {
		k := col.NewCase()
		ctx := vt.Ctx()
		nPeers := rapid.IntRange(2, 3).Draw(t, "peers")
		nTx := rapid.IntRange(1, 8).Draw(t, "txs")
		same := rapid.Bool().Draw(t, "sameBucket")
		limit := rapid.SampledFrom([]int{1, 2, 3, 4, 10000}).Draw(t, "limit")
		txs, ids := mixedBucketTxs[:nTx], mixedBucketIDs[:nTx]
		if same {
			txs, ids = sameBucketTxs[:nTx], sameBucketIDs[:nTx]
		}

		hdrs, book := sess.NewHeaders(), sess.NewPeers()
		var peers []*p2p.Peer
		for i := 0; i < nPeers; i++ {
			p, err := p2p.Listen()
			if err != nil {
				t.Fatalf("%s: listen: %s", p2p.SetupFailure, err)
			}
			defer p.Close()
			peers = append(peers, p)
			book.StoragePeerRepository.Add(ctx, p.Addr())
		}
		cfg := sess.NodeConfig()
		cfg.DesiredNodeCount = 8
		cfg.TxRequestCount = limit
		mgr := bitcoin_reader.NewNodeManager("/verif:1/", cfg, hdrs, book)
		tm := bitcoin_reader.NewTxManager(timeout)
		log := spy.NewLog()
		tm.SetTxProcessor(spy.Processor{L: log})
		runDone := make(chan error, 1)
		go func() { runDone <- tm.Run(ctx) }()
		mgr.SetTxManager(tm)
		if _, err := mgr.FindByScore(ctx, 0, nPeers); err != nil {
			t.Fatalf("FindByScore: %s", err)
		}
		stopped := false
		stop := func() {
			if stopped {
				return
			}
			stopped = true
			for _, p := range peers {
				p.Close()
			}
			mgr.Stop(ctx)
			done := make(chan struct{})
			go func() { mgr.Wait(ctx); close(done) }()
			select {
			case <-done:
			case <-time.After(10 * time.Second):
			}
			tm.Stop(ctx)
			<-runDone
		}
		defer stop()
		for i, p := range peers {
			if err := p.Accept(10 * time.Second); err != nil {
				t.Fatalf("%s: manager's node %d did not connect: %s", p2p.SetupFailure, i, err)
			}
			if !p.WaitCommand("version", 1, 10*time.Second) {
				t.Fatalf("setup: peer %d: no version", i)
			}
			p.Send(p2p.Version(0), p2p.Verack())
			if !p.WaitCommand("getheaders", 1, 10*time.Second) {
				t.Fatalf("setup: peer %d: no verification request", i)
			}
			p.Send(p2p.Headers([]model.RawHeader{sess.BSVHeader()}))
			if !p.WaitCommand("addr", 1, 10*time.Second) {
				t.Fatalf("setup: peer %d: node not accepted: %v", i, sess.Cmds(p.Received()))
			}
		}
		nonce := uint64(7000)
		sync := func(i int) {
			nonce++
			peers[i].Send(p2p.Ping(nonce))
			if !peers[i].WaitPong(nonce, 10*time.Second) {
				t.Fatalf("peer %d: no pong", i)
			}
		}

		// peer 0 announces, optionally delivers a subset, then the others announce
		peers[0].Send(p2p.Inv(1, ids))
		sync(0)
		delivered := map[int]bool{}
		for x := range txs {
			if rapid.IntRange(0, 3).Draw(t, fmt.Sprintf("deliver%d", x)) == 0 {
				delivered[x] = true
				peers[0].Send(p2p.TxFrame(txs[x], false))
			}
		}
		sync(0)
		for i := 1; i < nPeers; i++ {
			peers[i].Send(p2p.Inv(1, ids))
			sync(i)
		}
		// retry rounds
		for round := 1; round < nPeers; round++ {
			time.Sleep(timeout + 20*time.Millisecond)
			for c := 0; c < 3*(nTx+2); c++ {
				if err := mgr.RequestTxs(ctx); err != nil {
					t.Fatalf("NodeManager.RequestTxs: %s", err)
				}
				for i := range peers {
					sync(i)
				}
			}
		}

		undelivered := 0
		for x := range ids {
			if !delivered[x] {
				undelivered++
			}
		}
		for i, p := range peers {
			got, err := getdataEntries(p)
			if err != nil {
				t.Fatalf("peer %d: %s", i, err)
			}
			for x, id := range ids {
				want := 1
				if delivered[x] && i > 0 {
					want = 0
				}
				if got[id] != want {
					t.Fatalf("peer %d of %d was asked %d time(s) for transaction %d (delivered by peer 0: %v), want %d; limit %d, same bucket %v, %d transactions of which %d undelivered",
						i, nPeers, got[id], x, delivered[x], want, limit, same, nTx, undelivered)
				}
				delete(got, id)
			}
			if len(got) != 0 {
				t.Fatalf("peer %d was asked for %d unknown txids", i, len(got))
			}
		}
		stop()
		for x, id := range ids {
			want := 0
			if delivered[x] {
				want = 1
			}
			if c := log.CountTx("ProcessTx", id); c != want {
				t.Fatalf("transaction %d reached the processor %d times, want %d", x, c, want)
			}
		}
		k.Op("peers=%d txs=%d same=%v limit=%d delivered=%v", nPeers, nTx, same, limit, delivered)
		k.NonTrivial = nPeers == 3 || (same && undelivered >= 2 && limit < undelivered)
		k.Done()
	})
}

package txm

import (
	"context"
	"sync"
	"testing"
	"time"

	"verifharness/internal/evid"
	"verifharness/internal/model"
	"verifharness/internal/p2p"
	"verifharness/internal/spy"
	"verifharness/internal/vt"

	"github.com/google/uuid"
	bitcoin_reader "github.com/tokenized/bitcoin_reader"
	"github.com/tokenized/pkg/wire"
	"pgregory.net/rapid"
)

// ---------------------------------------------------------------------------------------------
// C06, full-queue leg: deliveries while the processor is stalled and the manager's queue is full.

const ruleFullQueue = "a TxManager whose processor stalls on its first transaction for a drawn time (50 ms, 3.3 s or 6.4 s - the manager warns every 3 s while a delivery waits for room in its 1000-slot queue) receives 1002..1040 distinct first deliveries from 1..4 concurrent deliverers (each AddTx blocks while the queue is full), some of them delivered a second time by another peer id; then the processor is released; oracle: every AddTx call returns within 20 s of the release, and after Run drained every transaction reached the processor exactly once; non-trivial = stall of more than 3 s (deliveries were waiting when the warning interval passed); distinct = (transactions, deliverers, stall, duplicates)"

// gateProcessor blocks in its first ProcessTx until released.
type gateProcessor struct {
	spy.Processor
	once    *sync.Once
	entered chan struct{}
	release chan struct{}
}

func (g gateProcessor) ProcessTx(ctx context.Context, tx *wire.MsgTx) (bool, error) {
	g.once.Do(func() {
		close(g.entered)
		<-g.release
	})
	return g.Processor.ProcessTx(ctx, tx)
}

var (
	fullQueueOnce sync.Once
	fullQueueTxs  []*wire.MsgTx
	fullQueueIDs  []model.Hash
)

func fullQueuePool() ([]*wire.MsgTx, []model.Hash) {
	fullQueueOnce.Do(func() {
		for seed := uint32(200000); len(fullQueueTxs) < 1040; seed++ {
			tx := p2p.Tx(seed, 62)
			fullQueueTxs = append(fullQueueTxs, tx)
			fullQueueIDs = append(fullQueueIDs, p2p.TxID(tx))
		}
	})
	return fullQueueTxs, fullQueueIDs
}

func TestProp_C06_fullqueue(t *testing.T) {
	col := evid.For("C06", "fullqueue", ruleFullQueue)
	pool, poolIDs := fullQueuePool()
	rapid.Check(t, func(t *rapid.T) {
		k := col.NewCase()
		ctx := vt.Ctx()
		n := rapid.IntRange(1002, 1040).Draw(t, "txs")
		deliverers := rapid.IntRange(1, 4).Draw(t, "deliverers")
		stall := rapid.SampledFrom([]time.Duration{50 * time.Millisecond, 3300 * time.Millisecond, 3300 * time.Millisecond, 6400 * time.Millisecond}).Draw(t, "stall")
		dups := rapid.IntRange(0, 5).Draw(t, "duplicates")
		txs, ids := pool[:n], poolIDs[:n]

		tm := bitcoin_reader.NewTxManager(time.Hour)
		log := spy.NewLog()
		gate := gateProcessor{Processor: spy.Processor{L: log}, once: &sync.Once{}, entered: make(chan struct{}), release: make(chan struct{})}
		tm.SetTxProcessor(gate)
		runDone := make(chan error, 1)
		go func() { runDone <- tm.Run(ctx) }()
		interrupt := make(chan interface{})

		var wg sync.WaitGroup
		errs := make(chan error, deliverers+1)
		for d := 0; d < deliverers; d++ {
			wg.Add(1)
			go func(d int) {
				defer wg.Done()
				id := uuid.New()
				for x := d; x < n; x += deliverers {
					if err := tm.AddTx(ctx, interrupt, id, txs[x]); err != nil {
						errs <- err
						return
					}
				}
			}(d)
		}
		select {
		case <-gate.entered:
		case <-time.After(20 * time.Second):
			close(gate.release)
			t.Fatalf("the processor was never called")
		}
		time.Sleep(stall)
		close(gate.release)
		returned := make(chan struct{})
		go func() { wg.Wait(); close(returned) }()
		select {
		case <-returned:
		case <-time.After(20 * time.Second):
			close(interrupt)
			t.Fatalf("AddTx calls still blocked 20 s after the processor was released (%d transactions, %d deliverers, stall %v)", n, deliverers, stall)
		}
		select {
		case err := <-errs:
			t.Fatalf("AddTx: %s", err)
		default:
		}
		// second deliveries of some of them by another peer
		other := uuid.New()
		for i := 0; i < dups; i++ {
			x := rapid.IntRange(0, n-1).Draw(t, "dup")
			if err := tm.AddTx(ctx, interrupt, other, txs[x]); err != nil {
				t.Fatalf("AddTx (second delivery): %s", err)
			}
		}
		tm.Stop(ctx)
		select {
		case <-runDone:
		case <-time.After(20 * time.Second):
			t.Fatalf("Run did not drain within 20 s of Stop")
		}
		missing, twice := 0, 0
		first := -1
		for x, id := range ids {
			switch c := log.CountTx("ProcessTx", id); {
			case c == 0:
				missing++
				if first < 0 {
					first = x
				}
			case c > 1:
				twice++
				if first < 0 {
					first = x
				}
			}
		}
		if missing+twice > 0 {
			t.Fatalf("%d of %d delivered transactions never reached the processor and %d reached it more than once (first: #%d; %d deliverers, processor stalled for %v)", missing, n, twice, first, deliverers, stall)
		}
		k.Op("txs=%d deliverers=%d stall=%v dups=%d", n, deliverers, stall, dups)
		k.NonTrivial = stall > 3*time.Second
		k.Done()
	})
}

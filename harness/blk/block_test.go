package blk

import (
	"context"
	"fmt"
	"sort"
	"sync"
	"testing"
	"time"

	"verifharness/internal/evid"
	"verifharness/internal/model"
	"verifharness/internal/p2p"
	"verifharness/internal/sess"
	"verifharness/internal/spy"
	"verifharness/internal/vt"

	bitcoin_reader "github.com/tokenized/bitcoin_reader"
	"github.com/tokenized/pkg/bitcoin"
	"github.com/tokenized/pkg/wire"
	"pgregory.net/rapid"
)

func TestMain(m *testing.M) { vt.Main(m) }

func toWire(r *model.RawHeader) *wire.BlockHeader {
	return &wire.BlockHeader{Version: r.Version, PrevBlock: bitcoin.Hash32(r.Prev),
		MerkleRoot: bitcoin.Hash32(r.Merkle), Timestamp: r.Timestamp, Bits: r.Bits, Nonce: r.Nonce}
}

// blockCase is a generated block with one corruption.
type blockCase struct {
	txs       []*wire.MsgTx // the true block
	relevant  map[model.Hash]bool
	header    model.RawHeader // header of the true block (true merkle root)
	height    int
	corrupt   string
	delivered []*wire.MsgTx   // what the handler is actually given
	announced uint64          // announced transaction count
	sent      model.RawHeader // header handed to the handler
	failAt    int             // processor/store fault at this recorded call (0 = none)
	cancelAt  int             // Cancel during the n-th ProcessTx call (0 = none)
}

func genBlock(t *rapid.T) *blockCase {
	n := rapid.SampledFrom([]int{1, 1, 2, 3, 4, 5, 6, 7, 8, 9, 12, 16, 17, 25, 32, 33, 40}).Draw(t, "txCount")
	c := &blockCase{relevant: map[model.Hash]bool{}, height: rapid.IntRange(1, 800000).Draw(t, "height")}
	seed := rapid.Uint32Range(1, 1<<24).Draw(t, "seed")
	ids := make([]model.Hash, n)
	relMode := rapid.SampledFrom([]string{"none", "all", "some", "some", "first", "last"}).Draw(t, "relevance")
	for i := 0; i < n; i++ {
		tx := p2p.Tx(seed<<6+uint32(i), 80+i)
		c.txs = append(c.txs, tx)
		ids[i] = p2p.TxID(tx)
		switch relMode {
		case "all":
			c.relevant[ids[i]] = true
		case "some":
			c.relevant[ids[i]] = rapid.Bool().Draw(t, "rel")
		case "first":
			c.relevant[ids[i]] = i == 0
		case "last":
			c.relevant[ids[i]] = i == n-1
		}
	}
	c.header = model.RawHeader{Version: 0x20000000, Timestamp: 1600000000, Bits: 0x1d00ffff, Nonce: seed, Merkle: model.MerkleRoot(ids)}
	c.header.Prev[0] = 0x42
	c.sent = c.header
	c.delivered = append([]*wire.MsgTx(nil), c.txs...)
	c.announced = uint64(n)
	c.corrupt = rapid.SampledFrom([]string{"none", "none", "drop", "insert", "swap", "alter", "count+", "count-", "cut", "header-nonce", "header-root", "fault", "fault", "cancel"}).Draw(t, "corrupt")
	switch c.corrupt {
	case "drop":
		i := rapid.IntRange(0, n-1).Draw(t, "i")
		c.delivered = append(append([]*wire.MsgTx(nil), c.txs[:i]...), c.txs[i+1:]...)
		if rapid.Bool().Draw(t, "adjustCount") {
			c.announced = uint64(n - 1)
		}
	case "insert":
		i := rapid.IntRange(0, n).Draw(t, "i")
		extra := p2p.Tx(seed<<6+63, 77)
		c.delivered = append(append(append([]*wire.MsgTx(nil), c.txs[:i]...), extra), c.txs[i:]...)
		if rapid.Bool().Draw(t, "adjustCount") {
			c.announced = uint64(n + 1)
		}
		c.relevant[p2p.TxID(extra)] = rapid.Bool().Draw(t, "extraRelevant")
	case "swap":
		if n < 2 {
			c.corrupt = "none"
			break
		}
		i := rapid.IntRange(0, n-2).Draw(t, "i")
		j := rapid.IntRange(i+1, n-1).Draw(t, "j")
		c.delivered[i], c.delivered[j] = c.delivered[j], c.delivered[i]
	case "alter":
		i := rapid.IntRange(0, n-1).Draw(t, "i")
		alt := p2p.Tx(seed<<6+uint32(i), 80+i)
		alt.LockTime = 1 + uint32(rapid.IntRange(0, 100).Draw(t, "lock"))
		c.delivered[i] = alt
		c.relevant[p2p.TxID(alt)] = c.relevant[ids[i]] || rapid.Bool().Draw(t, "altRelevant")
	case "count+":
		c.announced = uint64(n + rapid.IntRange(1, 3).Draw(t, "d"))
	case "count-":
		if n < 2 {
			c.announced = 0
		} else {
			c.announced = uint64(n - rapid.IntRange(1, n-1).Draw(t, "d"))
		}
	case "cut":
		c.delivered = c.delivered[:rapid.IntRange(0, n-1).Draw(t, "cutAfter")]
	case "header-nonce":
		c.sent.Nonce++
	case "header-root":
		c.sent.Merkle[rapid.IntRange(0, 31).Draw(t, "b")] ^= 1
	case "fault":
		// recorded calls of a fully valid block: n ProcessTx + 1 coinbase + r confirms + 1 append
		r := 0
		for _, id := range ids {
			if c.relevant[id] {
				r++
			}
		}
		c.failAt = rapid.IntRange(1, n+1+r+1).Draw(t, "failAt")
	case "cancel":
		c.cancelAt = rapid.IntRange(1, n).Draw(t, "cancelAt")
	}
	return c
}

// verifyOutcome is the C04 oracle over the recorded calls.
func verifyOutcome(t *rapid.T, c *blockCase, log *spy.Log, requested model.Hash, completeErr error, gotComplete bool) (success bool) {
	calls := log.Calls()
	deliveredIDs := make([]model.Hash, len(c.delivered))
	for i, tx := range c.delivered {
		deliveredIDs[i] = p2p.TxID(tx)
	}
	verified := c.sent.Hash() == requested && uint64(len(c.delivered)) == c.announced && len(c.delivered) > 0 &&
		model.MerkleRoot(deliveredIDs) == c.sent.Merkle
	expectSuccess := verified && c.failAt == 0 && c.cancelAt == 0
	desc := fmt.Sprintf("block of %d txs, corruption %q (delivered %d, announced %d, failAt %d, cancelAt %d)", len(c.txs), c.corrupt, len(c.delivered), c.announced, c.failAt, c.cancelAt)

	var confirms, coinbases, appends []spy.Call
	firstConfirmLike := -1
	for i, cl := range calls {
		switch cl.Kind {
		case "ConfirmTx":
			confirms = append(confirms, cl)
		case "ProcessCoinbaseTx":
			coinbases = append(coinbases, cl)
		case "AppendBlockTxIDs":
			appends = append(appends, cl)
		default:
			continue
		}
		if firstConfirmLike == -1 {
			firstConfirmLike = i
		}
	}
	if !verified || c.cancelAt != 0 {
		// not a fully verified block (or cancelled before verification finished): nothing may be
		// confirmed, no coinbase processed, no txids recorded
		if len(confirms)+len(coinbases)+len(appends) > 0 {
			t.Fatalf("%s: the block is not fully verified (hash ok=%v, count ok=%v, root ok=%v) yet the processor saw %d ConfirmTx, %d ProcessCoinbaseTx, %d AppendBlockTxIDs",
				desc, c.sent.Hash() == requested, uint64(len(c.delivered)) == c.announced, len(c.delivered) > 0 && model.MerkleRoot(deliveredIDs) == c.sent.Merkle, len(confirms), len(coinbases), len(appends))
		}
	}
	if !gotComplete {
		t.Fatalf("%s: nothing was sent on Complete", desc)
	}
	if expectSuccess != (completeErr == nil) {
		t.Fatalf("%s: Complete carried %v, expected success=%v", desc, completeErr, expectSuccess)
	}
	// every ProcessTx must precede the first confirmation-type call
	for i, cl := range calls {
		if cl.Kind == "ProcessTx" && firstConfirmLike != -1 && i > firstConfirmLike {
			t.Fatalf("%s: ProcessTx after confirmations started", desc)
		}
	}
	// confirmations: relevant txs of the delivered block, in block order, once each, valid proofs
	var wantConfirm []model.Hash
	for _, id := range deliveredIDs {
		if c.relevant[id] {
			wantConfirm = append(wantConfirm, id)
		}
	}
	if len(confirms) > 0 || len(coinbases) > 0 || len(appends) > 0 {
		if len(coinbases) != 1 || coinbases[0].Block != requested || coinbases[0].TxID != deliveredIDs[0] {
			t.Fatalf("%s: coinbase calls %v, want exactly one for the first delivered transaction and the requested block", desc, coinbases)
		}
	}
	for i, cf := range confirms {
		if i >= len(wantConfirm) || cf.TxID != wantConfirm[i] {
			t.Fatalf("%s: confirmation #%d is for %s; relevant transactions in block order are %v", desc, i, cf.TxID, wantConfirm)
		}
		if cf.Height != c.height {
			t.Fatalf("%s: confirmation carries height %d, downloader height %d", desc, cf.Height, c.height)
		}
		pr := cf.Proof
		if pr == nil || pr.TxID == nil || model.Hash(*pr.TxID) != cf.TxID {
			t.Fatalf("%s: confirmation for %s carries a proof for another txid", desc, cf.TxID)
		}
		if pr.BlockHeader == nil || fromWireHash(pr.BlockHeader) != requested {
			t.Fatalf("%s: proof's header does not hash to the requested block", desc)
		}
		path := make([]model.Hash, len(pr.Path))
		for j, p := range pr.Path {
			path[j] = model.Hash(p)
		}
		root, ok := model.RootFromPath(cf.TxID, pr.Index, path, pr.DuplicatedIndexes)
		if !ok || root != c.sent.Merkle {
			t.Fatalf("%s: merkle proof for %s (index %d, %d path nodes, dups %v) does not recompute the header's merkle root", desc, cf.TxID, pr.Index, len(path), pr.DuplicatedIndexes)
		}
		if deliveredIDs[pr.Index] != cf.TxID {
			t.Fatalf("%s: proof index %d is not the position of %s", desc, pr.Index, cf.TxID)
		}
		if err := pr.Verify(); err != nil {
			t.Fatalf("%s: emitted proof does not verify: %s", desc, err)
		}
	}
	if expectSuccess {
		if len(confirms) != len(wantConfirm) {
			t.Fatalf("%s: %d confirmations, %d relevant transactions", desc, len(confirms), len(wantConfirm))
		}
		if len(appends) != 1 || appends[0].Block != requested || fmt.Sprint(appends[0].TxIDs) != fmt.Sprint(wantConfirm) {
			t.Fatalf("%s: AppendBlockTxIDs calls %v, want one with %v", desc, appends, wantConfirm)
		}
		if calls[len(calls)-1].Kind != "AppendBlockTxIDs" {
			t.Fatalf("%s: AppendBlockTxIDs is not the last call", desc)
		}
	} else if len(appends) > 0 && c.failAt == 0 {
		t.Fatalf("%s: block txids recorded although the download failed", desc)
	}
	return expectSuccess
}

func fromWireHash(h *wire.BlockHeader) model.Hash { return model.Hash(*h.BlockHash()) }

const ruleDirect = "generated block (1..40 distinct transactions; relevance none/all/some/first/last; tree widths 1,2,3,odd/even at several levels) with the true merkle root, handed to BlockDownloader.HandleBlock through a channel, with ONE corruption drawn from {none, drop tx i (count adjusted or not), insert a foreign tx at i, swap i/j, alter tx i, announced count +/-, stream cut after i, header with another nonce, header with another merkle root, processor/store fault at recorded call k (every k reachable: ProcessTx, coinbase, each ConfirmTx, AppendBlockTxIDs), Cancel during the k-th ProcessTx}; oracle computed from what was actually delivered with an independent merkle implementation: ProcessCoinbaseTx / ConfirmTx / AppendBlockTxIDs occur ONLY if header hash = requested AND delivered count = announced AND recomputed root = header root (and not cancelled); then coinbase once for the first tx, confirmations exactly for the relevant txs, once each, in block order, each proof recomputing the header root for exactly that txid at its index with the downloader's height, AppendBlockTxIDs last with the same list, Complete carries nil; otherwise Complete carries an error; non-trivial = any corruption, or >=2 relevant txs in a tree of width >=3; distinct = (tx count, relevance pattern, corruption, position)"

func TestProp_C04_direct(t *testing.T) {
	col := evid.For("C04", "direct", ruleDirect)
	rapid.Check(t, func(t *rapid.T) {
		k := col.NewCase()
		ctx := vt.Ctx()
		c := genBlock(t)
		log := spy.NewLog()
		log.Relevant = func(id model.Hash) bool { return c.relevant[id] }
		log.FailAt = c.failAt
		requested := c.header.Hash()
		bd := bitcoin_reader.NewBlockDownloader(spy.Processor{L: log}, spy.BlockTxs{L: log}, bitcoin.Hash32(requested), c.height)
		if c.cancelAt > 0 {
			n := 0
			inner := log.Relevant
			log.Relevant = func(id model.Hash) bool {
				n++
				if n == c.cancelAt {
					bd.Cancel(ctx)
				}
				return inner(id)
			}
		}
		ch := make(chan *wire.MsgTx, len(c.delivered)+1)
		for _, tx := range c.delivered {
			ch <- tx
		}
		close(ch)
		var herr error
		if p := vt.Catch(func() { herr = bd.HandleBlock(ctx, toWire(&c.sent), c.announced, ch) }); p != nil {
			t.Fatalf("HandleBlock panicked: %v", p)
		}
		_ = herr
		var completeErr error
		got := false
		select {
		case completeErr = <-bd.Complete:
			got = true
		default:
		}
		ok := verifyOutcome(t, c, log, requested, completeErr, got)
		rel := 0
		for _, v := range c.relevant {
			if v {
				rel++
			}
		}
		k.Op("n=%d rel=%d corrupt=%s fail=%d cancel=%d ok=%v", len(c.txs), rel, c.corrupt, c.failAt, c.cancelAt, ok)
		k.Class("corrupt_" + c.corrupt)
		k.NonTrivial = c.corrupt != "none" || (rel >= 2 && len(c.txs) >= 3)
		k.Done()
	})
}

// ---------------------------------------------------------------------------------------------
// the same through the node-side block handler and a scripted peer

const ruleNode = "the same generated blocks and corruptions delivered as a block message (classic or extended framing) by a scripted peer to a verified real BitcoinNode that requested the block with BlockDownloader.HandleBlock as handler (stream cut = peer closes mid-block), the peer's writes splitting the message at 0..3 drawn byte offsets (inside the frame header, inside the 80-byte block header, right after it, anywhere); same oracle; non-trivial as above or a split message; distinct = (tx count, corruption, framing, number of splits)"

func TestProp_C04_node(t *testing.T) {
	col := evid.For("C04", "node", ruleNode)
	rapid.Check(t, func(t *rapid.T) {
		k := col.NewCase()
		ctx := vt.Ctx()
		c := genBlock(t)
		if c.corrupt == "cancel" || c.corrupt == "fault" {
			c.corrupt, c.failAt, c.cancelAt = "none", 0, 0 // covered by the direct leg
		}
		log := spy.NewLog()
		log.Relevant = func(id model.Hash) bool { return c.relevant[id] }
		requested := c.header.Hash()
		bd := bitcoin_reader.NewBlockDownloader(spy.Processor{L: log}, spy.BlockTxs{L: log}, bitcoin.Hash32(requested), c.height)
		s := sess.Start(t, sess.Opts{})
		defer s.Finish(10 * time.Second)
		s.Ready(t)
		if err := s.Node.RequestBlock(ctx, bitcoin.Hash32(requested), bd.HandleBlock, bd.Stop); err != nil {
			t.Fatalf("RequestBlock: %s", err)
		}
		if !s.Peer.WaitCommand("getdata", 1, 10*time.Second) {
			t.Fatalf("no getdata")
		}
		extended := rapid.Bool().Draw(t, "extended")
		frame := p2p.Block(c.sent, c.delivered, c.announced, extended)
		// the peer's writes split the message at 0..3 drawn byte offsets (inside the frame header,
		// inside the 80-byte block header, right after it, anywhere), as TCP segments do
		enc := p2p.Encode(frame)
		hdrAt := len(enc) - len(frame.Payload)
		cutSet := map[int]bool{}
		for i := rapid.IntRange(0, 3).Draw(t, "splits"); i > 0; i-- {
			var at int
			switch rapid.SampledFrom([]string{"blockheader", "blockheader", "frameheader", "afterheader", "any", "any"}).Draw(t, "splitKind") {
			case "blockheader":
				at = hdrAt + rapid.IntRange(1, 79).Draw(t, "splitAt")
			case "frameheader":
				at = rapid.IntRange(1, hdrAt).Draw(t, "splitAt")
			case "afterheader":
				at = hdrAt + 80 + rapid.IntRange(0, 1).Draw(t, "splitAt")
			default:
				at = rapid.IntRange(1, len(enc)-1).Draw(t, "splitAt")
			}
			if at > 0 && at < len(enc) {
				cutSet[at] = true
			}
		}
		var cutList []int
		for at := range cutSet {
			cutList = append(cutList, at)
		}
		sort.Ints(cutList)
		prev := 0
		for _, at := range append(cutList, len(enc)) {
			if prev > 0 {
				time.Sleep(time.Millisecond) // let the node read the piece before the next arrives
			}
			s.Peer.SendRaw(enc[prev:at])
			prev = at
		}
		if c.corrupt == "cut" || uint64(len(c.delivered)) < c.announced {
			// fewer transactions than announced: the declared frame length still covers only what
			// is sent, then the peer goes away (a frame cannot be shorter than it declares)
			time.Sleep(2 * time.Millisecond)
			s.Peer.Close()
		}
		var completeErr error
		got := false
		if c.sent.Hash() != requested {
			// the node ignores the block: once a following ping is answered it has been consumed
			s.Peer.Send(p2p.Ping(404))
			if !s.Peer.WaitPong(404, 10*time.Second) {
				t.Fatalf("node out of sync after a block with another header")
			}
			select {
			case completeErr = <-bd.Complete:
				got = true
			default:
			}
		} else {
			select {
			case completeErr = <-bd.Complete:
				got = true
			case <-time.After(10 * time.Second):
			}
		}
		if c.sent.Hash() != requested {
			// the node ignores a block it did not request; the downloader hears nothing
			if got {
				t.Fatalf("a block with another header reached the downloader's Complete: %v", completeErr)
			}
			if n := log.Count("ConfirmTx") + log.Count("ProcessCoinbaseTx") + log.Count("AppendBlockTxIDs"); n != 0 {
				t.Fatalf("a block with another header caused %d confirmation calls", n)
			}
		} else {
			if uint64(len(c.delivered)) > c.announced {
				// the node stops reading at the announced count; the handler sees that prefix
				c.delivered = c.delivered[:c.announced]
			}
			verifyOutcome(t, c, log, requested, completeErr, got)
		}
		k.Op("n=%d corrupt=%s ext=%v splits=%d", len(c.txs), c.corrupt, extended, len(cutList))
		if len(cutList) > 0 {
			k.Class("split-writes")
		}
		k.NonTrivial = c.corrupt != "none" || len(cutList) > 0
		k.Done()
	})
}

// ---------------------------------------------------------------------------------------------
// C16, the node's side of a block request: what the peer connection reports at cancel time must
// agree with whether the block handler is (or will be) called.

const ruleC16node = "a real BitcoinNode (ready, over loopback TCP) is asked for a block; the scripted peer delivers the block message in pieces - frame header | 80-byte block header | transaction count | each transaction - and CancelBlockRequest is called on the node after a drawn piece (or before the first, or after the last); the handler passed to RequestBlock records whether it was called and reads its transaction channel to the end; oracle: if CancelBlockRequest answered 'not started' the handler is never called afterwards and is not running at that moment (the downloader was told it need not wait for it; a download that had already finished is the one exception), if it answered 'started' the handler's transaction channel ends (closed) within 10 s, in every case the handler returns within 10 s and afterwards the connection is either in sync (a ping is answered) or closed by the node, not stuck; non-trivial = the cancel fell strictly inside the block message; distinct = (transactions, cut point, extended)"

func TestProp_C16_node(t *testing.T) {
	col := evid.For("C16", "node", ruleC16node)
	rapid.Check(t, func(t *rapid.T) {
		k := col.NewCase()
		ctx := vt.Ctx()
		n := rapid.IntRange(1, 4).Draw(t, "txs")
		extended := rapid.Bool().Draw(t, "extended")
		var txs []*wire.MsgTx
		var ids []model.Hash
		for i := 0; i < n; i++ {
			tx := p2p.Tx(uint32(8800+i), 80+i)
			txs = append(txs, tx)
			ids = append(ids, p2p.TxID(tx))
		}
		header := model.RawHeader{Version: 1, Bits: 0x1d00ffff, Merkle: model.MerkleRoot(ids), Nonce: 77}
		requested := header.Hash()
		frame := p2p.Encode(p2p.Block(header, txs, uint64(n), extended))
		// piece boundaries inside the encoded frame
		payloadAt := len(frame)
		for _, tx := range txs {
			payloadAt -= len(p2p.TxBytes(tx))
		}
		countLen := len(p2p.VarInt(uint64(n)))
		headerAt := payloadAt - countLen - 80
		cuts := []int{0, headerAt, headerAt + 80, payloadAt}
		off := payloadAt
		for _, tx := range txs {
			off += len(p2p.TxBytes(tx))
			cuts = append(cuts, off)
		}
		cutIdx := rapid.IntRange(0, len(cuts)-1).Draw(t, "cancelAfterPiece")
		s := sess.Start(t, sess.Opts{})
		defer s.Finish(10 * time.Second)
		s.Ready(t)
		var mu sync.Mutex
		called, chanEnded := false, false
		handlerDone := make(chan struct{})
		handler := func(ctx context.Context, h *wire.BlockHeader, txCount uint64, txChannel <-chan *wire.MsgTx) error {
			mu.Lock()
			called = true
			mu.Unlock()
			for range txChannel {
			}
			mu.Lock()
			chanEnded = true
			mu.Unlock()
			close(handlerDone)
			return nil
		}
		if err := s.Node.RequestBlock(ctx, bitcoin.Hash32(requested), handler, func(context.Context) {}); err != nil {
			t.Fatalf("RequestBlock: %s", err)
		}
		if !s.Peer.WaitCommand("getdata", 1, 10*time.Second) {
			t.Fatalf("no getdata")
		}
		cut := cuts[cutIdx]
		if cut > 0 {
			if err := s.Peer.SendRaw(frame[:cut]); err != nil {
				t.Fatalf("send: %s", err)
			}
			// let the node take what was sent: it is parked in its next read afterwards
			time.Sleep(3 * time.Millisecond)
		}
		// While the node is waiting for the peer's next bytes of a block it has started to read,
		// CancelBlockRequest does not return before those bytes arrive (closing the block reader
		// waits for the read in progress): the cancel runs in its own goroutine and the rest of the
		// message follows, as it would from a real peer.
		var started bool
		cancelDone := make(chan struct{})
		calledBefore, endedBefore := false, false
		go func() {
			started = s.Node.CancelBlockRequest(ctx, bitcoin.Hash32(requested))
			mu.Lock()
			calledBefore, endedBefore = called, chanEnded
			mu.Unlock()
			close(cancelDone)
		}()
		select {
		case <-cancelDone:
		case <-time.After(20 * time.Millisecond):
			k.Class("cancel_waits_for_the_peers_next_bytes")
		}
		if cut < len(frame) {
			if err := s.Peer.SendRaw(frame[cut:]); err != nil {
				t.Fatalf("send rest: %s", err)
			}
		}
		select {
		case <-cancelDone:
		case <-time.After(10 * time.Second):
			t.Fatalf("CancelBlockRequest did not return within 10 s although the peer sent the rest of the block message (cut %d of %d)", cut, len(frame))
		}
		// afterwards the connection is either still in sync (a ping is answered) or the node hung up
		s.Peer.Send(p2p.Ping(1616))
		wantPong := p2p.Pong(1616).Payload
		ok := s.Peer.WaitFor(10*time.Second, func(got []p2p.Frame, closed bool) bool {
			if closed {
				return true
			}
			for _, f := range got {
				if f.Command == "pong" && string(f.Payload) == string(wantPong) {
					return true
				}
			}
			return false
		})
		if !ok {
			t.Fatalf("neither a pong nor a hang-up within 10 s after a block request cancelled after %d of %d bytes (CancelBlockRequest answered started=%v): the reader is stuck in the block message", cut, len(frame), started)
		}
		if s.Peer.Closed() {
			k.Class("node_hung_up_after_the_cancel")
		}
		mu.Lock()
		c, e := called, chanEnded
		mu.Unlock()
		// 'not started' is only a consistent answer when the handler is never called, or when the
		// whole download had already finished before the cancel (nothing left to cancel)
		if !started && c && !(calledBefore && endedBefore) {
			t.Fatalf("CancelBlockRequest answered 'not started' after %d of %d bytes of the block message, but the block handler was running or was called afterwards (called before the answer=%v, finished before the answer=%v; %d txs, extended=%v)", cut, len(frame), calledBefore, endedBefore, n, extended)
		}
		if c {
			select {
			case <-handlerDone:
			case <-time.After(10 * time.Second):
				t.Fatalf("block handler was called but its transaction channel did not end within 10 s after the cancel (cut %d of %d, started=%v, channel ended=%v)", cut, len(frame), started, e)
			}
		}
		k.Op("txs=%d cut=%d/%d ext=%v started=%v called=%v", n, cutIdx, len(cuts)-1, extended, started, c)
		k.NonTrivial = cutIdx > 0 && cutIdx < len(cuts)-1
		k.Done()
	})
}

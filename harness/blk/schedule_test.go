package blk

import (
	"context"
	"fmt"
	"runtime"
	"strings"
	"sync"
	"testing"
	"time"

	"verifharness/internal/evid"
	"verifharness/internal/model"
	"verifharness/internal/p2p"
	"verifharness/internal/spy"
	"verifharness/internal/vt"

	"github.com/google/uuid"
	bitcoin_reader "github.com/tokenized/bitcoin_reader"
	"github.com/tokenized/pkg/bitcoin"
	"github.com/tokenized/pkg/wire"
	"pgregory.net/rapid"
)

const termBound = 10 * time.Second

// fakeNode models the node side of one block request as the downloader sees it: a canceller that
// answers "already started" consistently with whether the handler has been called, after which
// the transaction stream ends (as the node closes its reader), or after which the handler is never
// called.
//
// The transaction channel has ONE owner, the goroutine that plays the node's reader (the test's
// main goroutine in the schedule leg, the per-request goroutine of the scripted requestor in the
// manager leg): only the owner sends on it and closes it. A cancel, which arrives on another
// goroutine, only raises the stop signal; the owner ends the stream when it sees the signal (in
// send, or at its next step). Closing from the cancelling goroutine while the owner is sending is
// a data race (reported by the race detector on a loaded machine), and it is not what the node
// does either: its reader goroutine closes the channel it writes to.
type fakeNode struct {
	mu        sync.Mutex
	id        uuid.UUID
	started   bool // HandleBlock has been called
	cancelled bool // CancelBlockRequest was called
	txCh      chan *wire.MsgTx
	closed    bool
	stop      chan struct{} // closed by a cancel after the download started
	stopped   bool
	cancels   int
	latency   time.Duration // time the node takes to answer a cancel (it takes its lock there)
}

func newFakeNode(latency time.Duration) *fakeNode {
	return &fakeNode{id: uuid.New(), txCh: make(chan *wire.MsgTx), stop: make(chan struct{}), latency: latency}
}

func (f *fakeNode) ID() uuid.UUID { return f.id }

func (f *fakeNode) CancelBlockRequest(ctx context.Context, hash bitcoin.Hash32) bool {
	if f.latency > 0 {
		time.Sleep(f.latency)
	}
	f.mu.Lock()
	defer f.mu.Unlock()
	f.cancels++
	f.cancelled = true
	if f.started {
		if !f.stopped { // the node's reader will close the stream
			f.stopped = true
			close(f.stop)
		}
		return true
	}
	return false
}

// send (owner only) hands one transaction to the handler. When a cancel raised the stop signal the
// owner ends the stream instead.
func (f *fakeNode) send(tx *wire.MsgTx, handlerDone <-chan struct{}) string {
	f.mu.Lock()
	closed := f.closed
	f.mu.Unlock()
	if closed {
		return "closed"
	}
	select {
	case f.txCh <- tx:
		return "taken"
	case <-f.stop:
		f.endStream()
		return "closed"
	case <-handlerDone: // handler already returned (wrong block / cancelled)
		return "returned"
	case <-time.After(termBound):
		return "timeout"
	}
}

// endStream (owner only) closes the transaction channel once.
func (f *fakeNode) endStream() {
	f.mu.Lock()
	defer f.mu.Unlock()
	if !f.closed {
		f.closed = true
		close(f.txCh)
	}
}

// endStreamWhenDone (owner only) ends the stream and waits for the handler; the stream is ended
// right away, so a stop signal arriving meanwhile needs nothing more.
func (f *fakeNode) endStreamAndWait(done <-chan struct{}) {
	f.endStream()
	<-done
}

// honourStop (owner only): the node's reader ends the stream once a cancel asked for it.
func (f *fakeNode) honourStop() {
	select {
	case <-f.stop:
		f.endStream()
	default:
	}
}

// waitReturnOwner waits for done like waitReturn while the owner keeps honouring a stop signal
// that another goroutine (Run's own cancel on interrupt) may raise meanwhile.
func waitReturnOwner(done <-chan struct{}, f *fakeNode) bool {
	deadline := time.After(termBound)
	for {
		select {
		case <-done:
			return true
		case <-f.stop:
			f.endStream()
			select {
			case <-done:
				return true
			case <-deadline:
				return false
			}
		case <-deadline:
			return false
		}
	}
}

// waitReturn waits for a call made in its own goroutine to come back.
func waitReturn(done <-chan struct{}) bool {
	select {
	case <-done:
		return true
	case <-time.After(termBound):
		return false
	}
}

func parkedIn(substrs ...string) []string {
	buf := make([]byte, 1<<20)
	buf = buf[:runtime.Stack(buf, true)]
	var hits []string
	for _, g := range strings.Split(string(buf), "\n\n") {
		for _, s := range substrs {
			if strings.Contains(g, s) && !strings.Contains(g, "parkedIn") {
				hits = append(hits, g)
				break
			}
		}
	}
	return hits
}

const ruleSched = "one BlockDownloader with Run in its own goroutine and a fake node/canceller that answers 'started' consistently; the harness OWNS the schedule: a generated total order of the events {handler start, transaction i handed over (unbuffered, i < n<=4), end of stream, Cancel (manager), Stop (peer dropped), interrupt (shutdown)} is executed one call at a time, each blocking call in its own goroutine and the next event issued only after the previous call reached its sync point (handler received the tx / call returned); the block is valid, wrong, or makes the processor fail; oracle: Run returns within 10 s (>= 10^4 x the observed latency), every call into the downloader (HandleBlock, Cancel, Stop) returns (nothing stays blocked on the capacity-2 signalling channels), no goroutine is left parked in a block_downloader.go frame, confirmations happen only if the whole valid block was handed over without an earlier Cancel/Stop; non-trivial = Cancel, Stop or interrupt strictly between two handler events; distinct = the event order"

func TestProp_C16_downloader(t *testing.T) {
	col := evid.For("C16", "downloader", ruleSched)
	rapid.Check(t, func(t *rapid.T) {
		k := col.NewCase()
		ctx := vt.Ctx()
		n := rapid.IntRange(1, 4).Draw(t, "txs")
		kind := rapid.SampledFrom([]string{"valid", "valid", "wrong-block", "processor-fails"}).Draw(t, "block")
		txs := make([]*wire.MsgTx, n)
		ids := make([]model.Hash, n)
		for i := range txs {
			txs[i] = p2p.Tx(uint32(7000+i), 90)
			ids[i] = p2p.TxID(txs[i])
		}
		header := model.RawHeader{Version: 1, Bits: 0x1d00ffff, Merkle: model.MerkleRoot(ids), Nonce: 5}
		requested := header.Hash()
		sent := header
		if kind == "wrong-block" {
			sent.Nonce++
		}
		log := spy.NewLog()
		if kind == "processor-fails" {
			log.FailAt = rapid.IntRange(1, n).Draw(t, "failAt")
		}
		bd := bitcoin_reader.NewBlockDownloader(spy.Processor{L: log}, spy.BlockTxs{L: log}, bitcoin.Hash32(requested), 100)
		node := newFakeNode(0)
		bd.SetCanceller(node.id, node)

		// the schedule: handler events in order, control events inserted anywhere
		events := []string{"start"}
		for i := 0; i < n; i++ {
			events = append(events, fmt.Sprintf("tx%d", i))
		}
		events = append(events, "eos")
		controls := rapid.SliceOfNDistinct(rapid.SampledFrom([]string{"cancel", "stop", "interrupt", "cancel2"}), 0, 3, func(s string) string { return s }).Draw(t, "controls")
		for _, c := range controls {
			pos := rapid.IntRange(0, len(events)).Draw(t, "pos")
			events = append(events[:pos], append([]string{c}, events[pos:]...)...)
		}
		k.Op("%s n=%d %v", kind, n, events)

		interrupt := make(chan interface{})
		runDone := make(chan struct{})
		var runErr error
		go func() { runErr = bd.Run(ctx, interrupt); close(runDone) }()
		handlerDone := make(chan struct{})
		handlerStarted := false
		var calls []chan struct{}
		interrupted := false
		between := false
		waitHandler := rapid.Bool().Draw(t, "waitHandlerAtEos")
		handlerReturned := false
		delivered := 0
		controlBeforeEnd := false
		for idx, ev := range events {
			switch {
			case ev == "start":
				node.mu.Lock()
				if node.cancelled || interrupted {
					// cancelled before the download started: the node never calls the handler
					node.mu.Unlock()
					continue
				}
				node.started = true
				node.mu.Unlock()
				handlerStarted = true
				go func() {
					bd.HandleBlock(ctx, toWire(&sent), uint64(n), node.txCh)
					close(handlerDone)
				}()
			case strings.HasPrefix(ev, "tx"):
				if !handlerStarted {
					continue
				}
				var i int
				fmt.Sscanf(ev, "tx%d", &i)
				node.mu.Lock()
				closed := node.closed
				node.mu.Unlock()
				if closed {
					continue
				}
				switch node.send(txs[i], handlerDone) {
				case "taken": // sync point: the handler took the transaction
					delivered++
				case "timeout":
					t.Fatalf("handler neither takes transaction %d nor returns (%v)", i, events)
				}
			case ev == "eos":
				node.endStream()
				if handlerStarted && waitHandler {
					// sync point: the handler finished its verification and returned
					if !waitReturnOwner(handlerDone, node) {
						t.Fatalf("HandleBlock did not return after the end of the stream (%v)", events)
					}
					handlerReturned = true
				}
			case ev == "cancel" || ev == "cancel2":
				done := make(chan struct{})
				calls = append(calls, done)
				go func() { bd.Cancel(ctx); close(done) }()
				if !waitReturn(done) {
					t.Fatalf("Cancel did not return (%v)", events)
				}
			case ev == "stop":
				// the peer dropped: the node calls onStop and its tx stream ends
				done := make(chan struct{})
				calls = append(calls, done)
				go func() { bd.Stop(ctx); close(done) }()
				if !waitReturn(done) {
					t.Fatalf("Stop did not return (%v)", events)
				}
				node.mu.Lock()
				started := node.started
				node.cancelled = true // a dropped node never calls the handler later
				node.mu.Unlock()
				if started {
					node.endStream()
				}
			case ev == "interrupt":
				if !interrupted {
					interrupted = true
					close(interrupt)
				}
			}
			node.honourStop()
			if ev == "cancel" || ev == "cancel2" || ev == "stop" || ev == "interrupt" {
				if idx > 0 && idx < len(events)-1 && handlerStarted {
					node.mu.Lock()
					if !node.closed || delivered < n {
						between = true
					}
					node.mu.Unlock()
				}
				if !handlerReturned {
					controlBeforeEnd = true
				}
			}
		}
		// quiescence: if nothing ended the request, the manager would eventually cancel; do so
		if !waitShort(runDone) {
			done := make(chan struct{})
			go func() { bd.Cancel(ctx); close(done) }()
			if !waitReturn(done) {
				t.Fatalf("final Cancel did not return (%v)", events)
			}
		}
		if !waitReturnOwner(runDone, node) {
			t.Fatalf("BlockDownloader.Run did not return within %s (%v); parked: %v", termBound, events, firstLines(parkedIn("block_downloader.go")))
		}
		if handlerStarted && !waitReturnOwner(handlerDone, node) {
			t.Fatalf("HandleBlock did not return (%v)", events)
		}
		time.Sleep(200 * time.Microsecond)
		if parked := parkedIn("block_downloader.go"); len(parked) > 0 {
			time.Sleep(20 * time.Millisecond)
			if parked = parkedIn("block_downloader.go"); len(parked) > 0 {
				t.Fatalf("goroutines left parked in the block downloader after quiescence (%v): %v", events, firstLines(parked))
			}
		}
		confirmed := log.Count("AppendBlockTxIDs") > 0
		wholeValid := kind == "valid" && delivered == n && !controlBeforeEnd
		if confirmed && !(kind == "valid" && delivered == n) {
			t.Fatalf("block recorded as processed although kind=%s delivered=%d/%d (%v)", kind, delivered, n, events)
		}
		if wholeValid && handlerStarted && !confirmed {
			t.Fatalf("whole valid block handed over without interference but not processed (%v), Run returned %v", events, runErr)
		}
		if runErr == nil && !confirmed {
			t.Fatalf("Run returned nil although the block was not processed (%v)", events)
		}
		k.NonTrivial = between
		k.Done()
	})
}

func contains(l []string, s string) bool {
	for _, x := range l {
		if x == s {
			return true
		}
	}
	return false
}

func waitShort(done <-chan struct{}) bool {
	select {
	case <-done:
		return true
	case <-time.After(30 * time.Millisecond):
		return false
	}
}

func firstLines(gs []string) []string {
	var r []string
	for _, g := range gs {
		lines := strings.Split(g, "\n")
		if len(lines) > 6 {
			lines = lines[:6]
		}
		r = append(r, strings.Join(lines, " | "))
	}
	return r
}

package blk

import (
	"context"
	"fmt"
	"sync"
	"testing"
	"time"

	"verifharness/internal/evid"
	"verifharness/internal/model"
	"verifharness/internal/p2p"
	"verifharness/internal/spy"
	"verifharness/internal/vt"

	bitcoin_reader "github.com/tokenized/bitcoin_reader"
	"github.com/tokenized/pkg/bitcoin"
	"github.com/tokenized/pkg/wire"
	"pgregory.net/rapid"
)

type blockDef struct {
	header model.RawHeader
	tx     *wire.MsgTx
	hash   model.Hash
}

func mkBlock(i int) *blockDef {
	tx := p2p.Tx(uint32(9000+i), 90)
	h := model.RawHeader{Version: 1, Bits: 0x1d00ffff, Nonce: uint32(i), Merkle: p2p.TxID(tx)}
	return &blockDef{header: h, tx: tx, hash: h.Hash()}
}

// scriptedRequestor is the block source: the fate of every RequestBlock call is drawn up front.
type scriptedRequestor struct {
	mu       sync.Mutex
	blocks   map[model.Hash]*blockDef
	fates    map[model.Hash][]string
	calls    map[model.Hash]int
	bm       *bitcoin_reader.BlockManager
	limit    int
	latency  time.Duration
	overLim  string
	wg       sync.WaitGroup
	finishes map[model.Hash]int
}

func (r *scriptedRequestor) RequestBlock(ctx context.Context, hash bitcoin.Hash32, handler bitcoin_reader.HandleBlock,
	onStop bitcoin_reader.OnStop) (bitcoin_reader.BlockRequestCanceller, error) {
	h := model.Hash(hash)
	r.mu.Lock()
	idx := r.calls[h]
	r.calls[h]++
	fates := r.fates[h]
	fate := "finish"
	if idx < len(fates) {
		fate = fates[idx]
	}
	if c := r.bm.DownloaderCount(hash); c >= r.limit && r.overLim == "" {
		r.overLim = fmt.Sprintf("RequestBlock called while %d downloads of the block are active (limit %d)", c, r.limit)
	}
	b := r.blocks[h]
	r.mu.Unlock()
	if fate == "nonode" {
		return nil, bitcoin_reader.ErrNodeNotAvailable
	}
	node := newFakeNode(r.latency)
	r.wg.Add(1)
	go func() {
		defer r.wg.Done()
		time.Sleep(300 * time.Microsecond)
		start := func(hdr model.RawHeader) (chan struct{}, bool) {
			node.mu.Lock()
			if node.cancelled {
				node.mu.Unlock()
				return nil, false
			}
			node.started = true
			node.mu.Unlock()
			done := make(chan struct{})
			go func() { handler(ctx, toWire(&hdr), 1, node.txCh); close(done) }()
			return done, true
		}
		switch fate {
		case "finish":
			if done, ok := start(b.header); ok {
				if node.send(b.tx, done) == "taken" {
					r.mu.Lock()
					r.finishes[h]++
					r.mu.Unlock()
				}
				node.endStreamAndWait(done)
			}
		case "fail": // the stream ends before the announced transaction arrives
			if done, ok := start(b.header); ok {
				node.endStreamAndWait(done)
			}
		case "wrong":
			other := b.header
			other.Nonce += 1000
			if done, ok := start(other); ok {
				node.send(b.tx, done)
				node.endStreamAndWait(done)
			}
		case "drop-before": // the peer goes away before sending the block
			node.mu.Lock()
			node.cancelled = true
			node.mu.Unlock()
			onStop(ctx)
		case "drop-mid":
			if done, ok := start(b.header); ok {
				onStop(ctx)
				node.endStreamAndWait(done)
			}
		case "never":
		}
	}()
	return node, nil
}

const ruleMgr = "a real BlockManager (concurrentBlockRequests 1..4, cancel latency of the fake nodes 0..2 ms, request delay 2 ms) over a scripted block source: 1..4 queued requests, the fate of every successive download attempt drawn from {finish, fail (stream ends early), wrong block, peer drops before/mid block, never starts, no node available (bursts <= 12)}, optional abort of a request and optional shutdown at a drawn point; a collector per request listens on the channel returned by AddRequest for the whole case; oracle: while the manager runs every request ends in EXACTLY one terminal signal (channel closed = completed, or one BlockAborted value; never both, never twice, nothing else), completion implies a downloader for that hash processed the block (AppendBlockTxIDs recorded), RequestBlock is never called while the configured number of downloads of that block are active, the downloader list returns to empty, and after shutdown Run returns within 10 s with no goroutine parked in block_manager.go/block_downloader.go frames; non-trivial = >=2 download attempts for one request finishing/failing in different ways, or an abort/shutdown while a download is active; distinct = (concurrency, fates, abort/shutdown points)"

func TestProp_C16_manager(t *testing.T) {
	col := evid.For("C16", "manager", ruleMgr)
	rapid.Check(t, func(t *rapid.T) {
		k := col.NewCase()
		ctx := vt.Ctx()
		limit := rapid.IntRange(1, 4).Draw(t, "concurrent")
		latency := rapid.SampledFrom([]time.Duration{0, 0, 100 * time.Microsecond, 500 * time.Microsecond, 2 * time.Millisecond}).Draw(t, "cancelLatency")
		nReq := rapid.IntRange(1, 4).Draw(t, "requests")
		log := spy.NewLog()
		req := &scriptedRequestor{blocks: map[model.Hash]*blockDef{}, fates: map[model.Hash][]string{}, calls: map[model.Hash]int{},
			limit: limit, latency: latency, finishes: map[model.Hash]int{}}
		bm := bitcoin_reader.NewBlockManager(spy.BlockTxs{L: log}, req, limit, 2*time.Millisecond)
		req.bm = bm
		type reqState struct {
			b               *blockDef
			abortAfter      int // ms; -1 none
			closed, aborted int
			other           []error
			mu              sync.Mutex
		}
		var reqs []*reqState
		interesting := false
		var desc []string
		for i := 0; i < nReq; i++ {
			b := mkBlock(i + int(rapid.Uint32Range(0, 1000).Draw(t, "salt"))*10)
			req.blocks[b.hash] = b
			nf := rapid.IntRange(0, 4).Draw(t, "failures")
			var fates []string
			for j := 0; j < nf; j++ {
				choices := []string{"fail", "wrong", "drop-before", "drop-mid", "nonode", "nonode"}
				if limit >= 2 {
					choices = append(choices, "never", "never")
				}
				f := rapid.SampledFrom(choices).Draw(t, "fate")
				if f == "never" {
					nevers := 0
					for _, x := range fates {
						if x == "never" {
							nevers++
						}
					}
					if nevers >= limit-1 {
						// a download that never starts occupies a slot until the 2-minute start
						// timeout (time-gated, out of scope): keep one slot free
						f = "fail"
					}
				}
				if f == "nonode" {
					for x := rapid.IntRange(0, 3).Draw(t, "burst"); x > 0; x-- {
						fates = append(fates, "nonode")
					}
				}
				fates = append(fates, f)
			}
			fates = append(fates, "finish")
			rs := &reqState{b: b, abortAfter: -1}
			switch rapid.IntRange(0, 5).Draw(t, "pattern") {
			case 0: // every slot taken by a download that never starts, then the request is aborted
				if limit >= 2 {
					fates = nil
					for x := 0; x < limit; x++ {
						fates = append(fates, "never")
					}
					fates = append(fates, "finish")
					rs.abortAfter = 2*limit + rapid.IntRange(1, 6).Draw(t, "abortAfterStall")
				}
			case 1: // all but one slot stalled, the last download finishes and the others are cancelled
				if limit >= 2 {
					fates = nil
					for x := 0; x < limit-1; x++ {
						fates = append(fates, "never")
					}
					fates = append(fates, "finish")
				}
			}
			if rs.abortAfter < 0 && rapid.IntRange(0, 4).Draw(t, "abort") == 0 {
				rs.abortAfter = rapid.IntRange(0, 8).Draw(t, "abortAfterMs")
				// an aborted request may also be given a download that never starts
				if limit >= 2 && rapid.Bool().Draw(t, "neverBeforeAbort") {
					fates = append([]string{"never"}, fates...)
				}
			}
			req.fates[b.hash] = fates
			reqs = append(reqs, rs)
			desc = append(desc, fmt.Sprintf("%v abort=%d", fates, rs.abortAfter))
			if nf >= 1 || rs.abortAfter >= 0 {
				interesting = true
			}
		}
		shutdownAt := -1
		if rapid.IntRange(0, 3).Draw(t, "shutdown") == 0 {
			shutdownAt = rapid.IntRange(0, nReq*6).Draw(t, "shutdownAtMs")
			interesting = true
		}
		k.Op("limit=%d %v shutdown=%d", limit, desc, shutdownAt)

		interrupt := make(chan interface{})
		runDone := make(chan struct{})
		go func() { bm.Run(ctx, interrupt); close(runDone) }()
		stopCollect := make(chan struct{})
		var collectors sync.WaitGroup
		t0 := time.Now()
		shutdownOnce := sync.Once{}
		doShutdown := func() { shutdownOnce.Do(func() { close(interrupt) }) }
		if shutdownAt >= 0 {
			go func() {
				time.Sleep(time.Duration(shutdownAt) * time.Millisecond)
				doShutdown()
			}()
		}
		queued := 0
		for _, rs := range reqs {
			complete, abort := bm.AddRequest(ctx, bitcoin.Hash32(rs.b.hash), 100, spy.Processor{L: log})
			if complete == nil {
				break // manager already shut down
			}
			queued++
			collectors.Add(1)
			go func(rs *reqState) {
				defer collectors.Done()
				for {
					select {
					case v, ok := <-complete:
						rs.mu.Lock()
						if !ok {
							rs.closed++
							rs.mu.Unlock()
							return
						}
						if v == bitcoin_reader.BlockAborted {
							rs.aborted++
						} else {
							rs.other = append(rs.other, v)
						}
						rs.mu.Unlock()
					case <-stopCollect:
						return
					}
				}
			}(rs)
			if rs.abortAfter >= 0 {
				go func(rs *reqState) {
					time.Sleep(time.Duration(rs.abortAfter) * time.Millisecond)
					close(abort)
				}(rs)
			}
		}
		// wait until every queued request has a terminal signal, or the manager stopped
		deadline := time.Now().Add(termBound)
		for {
			all := true
			for _, rs := range reqs[:queued] {
				rs.mu.Lock()
				if rs.closed+rs.aborted == 0 {
					all = false
				}
				rs.mu.Unlock()
			}
			stopped := false
			select {
			case <-runDone:
				stopped = true
			default:
			}
			if all || stopped {
				break
			}
			if time.Now().After(deadline) {
				t.Fatalf("requests without a terminal signal after %s while the manager is running: limit=%d %v (elapsed %v)", termBound, limit, desc, time.Since(t0))
			}
			time.Sleep(200 * time.Microsecond)
		}
		time.Sleep(3 * time.Millisecond) // a second, wrong, signal would arrive now
		managerStopped := false
		select {
		case <-runDone:
			managerStopped = true
		default:
		}
		for i, rs := range reqs[:queued] {
			rs.mu.Lock()
			closed, aborted, other := rs.closed, rs.aborted, rs.other
			rs.mu.Unlock()
			if len(other) > 0 {
				t.Fatalf("request %d received unexpected values %v", i, other)
			}
			if closed+aborted > 1 {
				t.Fatalf("request %d (%s) got %d completions and %d aborts", i, desc[i], closed, aborted)
			}
			if closed+aborted == 0 && !managerStopped {
				t.Fatalf("request %d has no terminal signal", i)
			}
			if closed == 1 && !log.Processed(rs.b.hash) {
				t.Fatalf("request %d (%s) was completed but no downloader processed the block", i, desc[i])
			}
			if aborted == 1 && rs.abortAfter < 0 {
				t.Fatalf("request %d was aborted although nobody asked for it", i)
			}
		}
		req.mu.Lock()
		over := req.overLim
		req.mu.Unlock()
		if over != "" {
			t.Fatalf("%s (%v)", over, desc)
		}
		// the downloader list returns to empty
		deadline = time.Now().Add(termBound)
		for {
			n := 0
			for _, rs := range reqs {
				n += bm.DownloaderCount(bitcoin.Hash32(rs.b.hash))
			}
			if n == 0 {
				break
			}
			if time.Now().After(deadline) {
				t.Fatalf("%d downloaders still listed %s after all requests ended (%v)", n, termBound, desc)
			}
			time.Sleep(200 * time.Microsecond)
		}
		doShutdown()
		if !waitReturn(runDone) {
			t.Fatalf("BlockManager.Run did not return after shutdown (%v): %v", desc, firstLines(parkedIn("block_manager.go", "block_downloader.go")))
		}
		close(stopCollect)
		collectors.Wait()
		req.wg.Wait()
		time.Sleep(500 * time.Microsecond)
		if parked := parkedIn("block_manager.go", "block_downloader.go"); len(parked) > 0 {
			time.Sleep(30 * time.Millisecond)
			if parked = parkedIn("block_manager.go", "block_downloader.go"); len(parked) > 0 {
				t.Fatalf("goroutines left parked after shutdown (%v): %v", desc, firstLines(parked))
			}
		}
		k.NonTrivial = interesting
		k.Done()
	})
}

// ---------------------------------------------------------------------------------------------
// C16, request queue: more requests than the manager's queue holds when it is shut down.

const ruleQueue = "a real BlockManager whose first request hangs (its only download attempt never starts), 9..13 further AddRequest calls made from their own goroutines so that the queue of 10 fills and the last callers block inside AddRequest, then shutdown (interrupt) after a drawn delay, optionally followed by late AddRequest calls; oracle: Run returns within 10 s, EVERY AddRequest call returns within 10 s of the shutdown (with channels or with nil, nil), a request never receives two terminal signals, and no goroutine stays parked in a block_manager.go frame; non-trivial = at least one caller was blocked inside AddRequest (queue full) when the shutdown came; distinct = (requests, shutdown delay class, late adds)"

func TestProp_C16_queue(t *testing.T) {
	col := evid.For("C16", "queue", ruleQueue)
	rapid.Check(t, func(t *rapid.T) {
		k := col.NewCase()
		ctx := vt.Ctx()
		extra := rapid.IntRange(9, 13).Draw(t, "furtherRequests")
		delayMs := rapid.SampledFrom([]int{0, 1, 5, 20}).Draw(t, "shutdownAfterMs")
		late := rapid.IntRange(0, 2).Draw(t, "lateAdds")
		log := spy.NewLog()
		req := &scriptedRequestor{blocks: map[model.Hash]*blockDef{}, fates: map[model.Hash][]string{}, calls: map[model.Hash]int{},
			limit: 1, finishes: map[model.Hash]int{}}
		bm := bitcoin_reader.NewBlockManager(spy.BlockTxs{L: log}, req, 1, 2*time.Millisecond)
		req.bm = bm
		first := mkBlock(77000 + int(rapid.Uint32Range(0, 1000).Draw(t, "salt"))*20)
		req.blocks[first.hash] = first
		req.fates[first.hash] = []string{"never"}
		interrupt := make(chan interface{})
		runDone := make(chan struct{})
		go func() { bm.Run(ctx, interrupt); close(runDone) }()
		var mu sync.Mutex
		signals := map[int]int{}
		returned := 0
		var wg sync.WaitGroup
		add := func(i int, b *blockDef) {
			defer wg.Done()
			complete, _ := bm.AddRequest(ctx, bitcoin.Hash32(b.hash), 100+i, spy.Processor{L: log})
			mu.Lock()
			returned++
			mu.Unlock()
			if complete == nil {
				return
			}
			// collect terminal signals for a while (a closed channel counts once)
			deadline := time.After(300 * time.Millisecond)
			for {
				select {
				case _, ok := <-complete:
					mu.Lock()
					signals[i]++
					mu.Unlock()
					if !ok {
						return
					}
				case <-deadline:
					return
				}
			}
		}
		wg.Add(1)
		go add(0, first)
		// wait until the first request is in progress
		deadline := time.Now().Add(5 * time.Second)
		for {
			req.mu.Lock()
			started := req.calls[first.hash] > 0
			req.mu.Unlock()
			if started {
				break
			}
			if time.Now().After(deadline) {
				t.Fatalf("setup: the first request was never picked up")
			}
			time.Sleep(200 * time.Microsecond)
		}
		for i := 1; i <= extra; i++ {
			b := mkBlock(77000 + i)
			req.mu.Lock()
			req.blocks[b.hash] = b
			req.mu.Unlock()
			wg.Add(1)
			go add(i, b)
		}
		time.Sleep(time.Duration(delayMs)*time.Millisecond + 2*time.Millisecond)
		mu.Lock()
		blocked := 1 + extra - returned
		mu.Unlock()
		close(interrupt)
		for i := 0; i < late; i++ {
			b := mkBlock(78000 + i)
			req.mu.Lock()
			req.blocks[b.hash] = b
			req.mu.Unlock()
			wg.Add(1)
			go add(100+i, b)
		}
		select {
		case <-runDone:
		case <-time.After(termBound):
			t.Fatalf("BlockManager.Run did not return within %s after shutdown with %d requests (%d callers blocked in AddRequest): %v", termBound, 1+extra, blocked, firstLines(parkedIn("block_manager.go")))
		}
		allReturned := make(chan struct{})
		go func() { wg.Wait(); close(allReturned) }()
		select {
		case <-allReturned:
		case <-time.After(termBound):
			mu.Lock()
			r := returned
			mu.Unlock()
			t.Fatalf("%d of %d AddRequest calls never returned after the shutdown (queue of 10, %d callers were blocked in AddRequest when it came): %v", 1+extra+late-r, 1+extra+late, blocked, firstLines(parkedIn("block_manager.go")))
		}
		for i, n := range signals {
			if n > 1 {
				t.Fatalf("request %d received %d terminal signals", i, n)
			}
		}
		time.Sleep(time.Millisecond)
		if parked := parkedIn("block_manager.go"); len(parked) > 0 {
			time.Sleep(50 * time.Millisecond)
			if parked = parkedIn("block_manager.go"); len(parked) > 0 {
				t.Fatalf("goroutines left parked in the block manager after shutdown: %v", firstLines(parked))
			}
		}
		req.wg.Wait()
		k.Op("requests=%d delay=%d late=%d blocked=%v", 1+extra, delayMs, late, blocked > 0)
		k.NonTrivial = blocked > 0
		k.Done()
	})
}
